#!/venv/bin/python
"""
C01 - pixel-to-g-vector geometry agrees across the Python, C and numba implementations.

Engine A (simomp): compute_xlylzl / compute_geometry / compute_gv are the real -O2 kernels; the two
latter are `omp parallel for` loops with a long private list writing into caller supplied inout arrays.
One run = one parameter set (swarm: each tilt / wedge / chi / translation zero or random, all 8 flips,
omegasign +-1, pixel size sign) x one peak list, evaluated by
  K  the three kernels in strict mode (team, strategy, interleaving, garbage in the outputs)
  P  columnfile.updateGeometry(fast=True), updateGV(fast=True), transform.Ctransform.sf2gv and
     point_by_point.get_local_gv on the instrumented module under a DIFFERENT team/schedule, with
     np.empty inside ImageD11.transform returning garbage
  R  the documented Python formulas (updateGeometry(fast=False) = transform.compute_*) and the numba copies
Oracle: K and P bitwise identical (schedule/garbage independence: each peak is computed by exactly one
iteration); K within a small tolerance of R for all nine columns; numba copy within tolerance of R.
"""
from __future__ import print_function
import os, sys, random, io, contextlib
sys.path.insert(0, os.path.dirname(os.path.dirname(os.path.abspath(__file__))))
import numpy as np
from common import runner, enginea, kernels

FLIPS = [(1, 0, 0, 1), (-1, 0, 0, 1), (1, 0, 0, -1), (-1, 0, 0, -1), (0, 1, 1, 0), (0, -1, 1, 0), (0, 1, -1, 0), (0, -1, -1, 0)]
COLS = ["xl", "yl", "zl", "tth", "eta", "ds", "gx", "gy", "gz"]


class NPProxy(object):
    """stands in for the numpy module inside ImageD11.transform: np.empty returns seed-determined garbage"""

    def __init__(self, np_mod):
        self._np = np_mod
        self.seed = 1
        self.count = 0

    def __getattr__(self, name):
        return getattr(self._np, name)

    def empty(self, shape, dtype=float, **kw):
        self.count += 1
        return enginea.garbage_array(tuple(np.atleast_1d(shape)) if not isinstance(shape, tuple) else shape,
                                     dtype, self.seed + self.count)


def draw_pars(rnd):
    z = lambda v: rnd.choice([0.0, v])
    o11, o12, o21, o22 = rnd.choice(FLIPS)
    return {"y_center": rnd.choice([0.0, 1024.3, 733.0]), "z_center": rnd.choice([0.0, 1011.7, 517.0]),
            "y_size": rnd.choice([50.0, -50.0, 4.6, 172.0]), "z_size": rnd.choice([50.0, 50.0, -48.0, 4.6]),
            "distance": rnd.choice([150000.0, 7367.0, 303030.3]),
            "tilt_x": z(rnd.uniform(-0.05, 0.05)), "tilt_y": z(rnd.uniform(-0.08, 0.08)), "tilt_z": z(rnd.uniform(-0.08, 0.08)),
            "o11": o11, "o12": o12, "o21": o21, "o22": o22,
            "wedge": z(rnd.uniform(-8, 8)), "chi": z(rnd.uniform(-6, 6)), "omegasign": rnd.choice([1.0, -1.0]),
            "wavelength": rnd.uniform(0.1, 1.0),
            "t_x": z(rnd.uniform(-400, 400)), "t_y": z(rnd.uniform(-400, 400)), "t_z": z(rnd.uniform(-200, 200))}


class C01(object):
    id = "C01"
    engine = "simomp"
    time_keys = {"steps": "scheduler steps (one per instrumented access, GOMP entry or allocator call)"}
    fault_keys = ["switches", "realloc_moved", "realloc_stay", "alloc", "free", "parallel_runs", "np_empty_garbage_buffers", "history_runs(in-place parameter edit between updates)", "concurrent_python_callers", "second_Ctransform_alive"]
    tiers = {"quick": {"runs": 5000, "budget_s": 55, "selftest_every": 50, "fresh_selftest": 6},
             "thorough": {"runs": 3000000, "budget_s": 800, "selftest_every": 300, "fresh_selftest": 12}}
    rule = ("one run = (parameter set drawn swarm style, 1..3000 peaks with counts on team*k and team*k+-1, team 1..32 "
            "and strategy for the strict kernel route, a second independent team/strategy for the Python routes); "
            "distinct = distinct (parameter/peak digest, team, schedule signature); non-trivial = a team >= 2 ran; in part of the runs also: 2-3 simulated Python caller threads inside compute_geometry with their own parameters, a second Ctransform alive, frame-sorted omegas, pre-existing single-precision/shared derived columns, a refused sf2gv(out=) call, the numba copy called twice on cached k-vectors, 2-3 Python threads sharing one Ctransform (each its own grain position), another table updated after the checked one, get_local_gv results looked at after the next call, xyz2geometry(out=) in Fortran order / single precision")
    components = {"real": enginea.COMPONENTS_REAL + ["compute_xlylzl, compute_geometry, compute_gv (machine code)",
                                                       "transform.Ctransform, columnfile.updateGeometry/updateGV, "
                                                       "point_by_point.get_local_gv (unchanged Python on the instrumented module)",
                                                       "transform.compute_xyz_lab/compute_tth_eta_from_xyz/compute_g_vectors and "
                                                       "the numba copies in point_by_point (reference routes, run natively)"],
                  "stub": enginea.COMPONENTS_STUB + ["numpy.empty as seen by ImageD11.transform (garbage filled)"]}
    assumptions = ["the (parameters x peaks) quantifier is sampled by the workload generator; the simulation decides the "
                   "team-size / chunking / interleaving / previous-buffer-content part",
                   "peaks within 1e-3 of the direct beam or of the eta = +-180 cut are excluded from the tolerance "
                   "comparison (branch cut), not from the bitwise one",
                   "tolerances: 1e-9 relative to the column scale for lengths, ds and g; 1e-7 degrees for angles"]

    def prepare(self, ctx):
        enginea.prepare_sim(ctx, import_imaged11=True)
        kernels.check_against_pyf()
        with contextlib.redirect_stdout(io.StringIO()):
            from ImageD11 import transform, columnfile, parameters
            import ImageD11.sinograms.point_by_point as pbp
        self.transform, self.columnfile, self.parameters, self.pbp = transform, columnfile, parameters, pbp
        self.proxy = NPProxy(np)
        transform.np = self.proxy
        self.threadsafe = set(kernels.threadsafe_kernels())
        # compile the numba copies once, in the parent
        sc = np.arange(4.0)
        pbp.compute_gve(sc, sc + 1, sc * 10, 0.0, 1e5, 1000., 50., 0., 1000., 50., 0., 0., 1., 0., 0., -1., 0., 0., 0., 0., 0., 0.3)
        pbp.compute_xyz_lab(sc, sc, 0., 1., 0., 0., 1., 0., 0., 1e5, 1., 0., 0., 1.)

    def gen(self, rs, ctx):
        rnd = random.Random(rs)
        g = np.random.default_rng(rnd.getrandbits(48))
        cfgK = enginea.draw_cfg(rnd, max_team=32)
        cfgP = enginea.draw_cfg(rnd, max_team=32)
        t = cfgK["team"]
        n = rnd.choice([1, 2, 3, t, t + 1, max(1, t - 1), 2 * t, 2 * t + 1, 7 * t - 1, 64, 100, 257] +
                       ([1000, 3000, 1024, 2048, 4096] if rnd.random() < 0.25 else []))
        pars = draw_pars(rnd)
        sc = g.uniform(0, 2048, n)
        fc = g.uniform(0, 2048, n)
        if rnd.random() < 0.1:
            sc[0], fc[0] = pars["z_center"], pars["y_center"]  # exactly on the direct beam
        om = g.uniform(-360, 360, n)
        if rnd.random() < 0.35:
            # a peak table sorted by frame: runs of exactly equal omega values (which straddle the chunk boundaries of a team)
            om = np.sort(g.choice(g.uniform(-180, 180, rnd.choice([1, 2, 3, 7])), n))
            if rnd.random() < 0.3:
                om = om[::-1].copy()
        return {"entry": "geometry", "pars": pars, "sc": sc.tolist(), "fc": fc.tolist(), "omega": om.tolist(),
                "cfg": cfgK, "cfgP": cfgP, "use_translation_arg": rnd.random() < 0.3,
                "route": rnd.choice(["updateGeometry", "updateGeometry", "updateGV", "sf2gv", "get_local_gv"]),
                "numba": rnd.random() < 0.35, "gstyle": rnd.choice([0, 1]),
                # other users of the geometry code alive at the same time: Python threads inside the GIL-releasing kernels
                # with their own parameters, and a second Ctransform object for another parameter set
                "concurrent": [draw_pars(rnd) for _ in range(rnd.choice([0, 0, 1, 2]))], "ccfg": enginea.draw_cfg(rnd, max_team=4),
                "other_ct": draw_pars(rnd) if rnd.random() < 0.5 else None,
                # what the table holds in its derived columns before the update: nothing, single precision columns (as
                # read from a file written that way), or one placeholder array under every title
                "preexisting": rnd.choice([None, None, "f4", "shared"]),
                # sf2gv(out=...): a refused call (omega of the wrong length) between two uses of the caller's array
                "refused_call": rnd.random() < 0.4,
                # the table object had read another file (sc/fc titles, other detector positions) before it read this one,
                # which uses the older xc/yc titles
                # another table is updated (for a grain elsewhere) after this one: this one's columns stay what they were
                "lookback": rnd.random() < 0.3,
                # Python threads sharing ONE Ctransform object, each asking for its own grain position
                "shared_ct": None if rnd.random() < 0.6 else {
                    "trs": [[rnd.choice([0.0, 50.0, -120.5]), rnd.uniform(-300, 300), rnd.uniform(-300, 300)] for _ in range(rnd.choice([2, 2, 3]))],
                    "sseed": rnd.getrandbits(48), "strategy": rnd.choice(["random", "random", "pct", "rr"]), "p_inv": rnd.choice([1, 2, 4]),
                    "quantum": rnd.choice([1, 2, 5]), "pct_d": rnd.choice([1, 2, 3])},
                "reread_xcyc": rnd.random() < 0.2, "position_story": rnd.choice([None, None, "fast", "slow"]),
                # history: a long-lived columnfile first updated with OTHER parameters, which are then edited in place
                "history": None if rnd.random() < 0.5 else {"first_pars": (draw_pars(rnd) if rnd.random() < 0.6 else "tiny"),
                                                            "tiny": [rnd.choice(["distance", "y_center", "z_center", "y_size", "z_size",
                                                                                 "tilt_x", "tilt_y", "tilt_z"]),
                                                                     rnd.choice([1e-6, 4e-6, 1e-5, 1e-4])],
                                                            "edit": rnd.choice(["set", "set_parameters", "dict"])}}

    def shared_ct(self, desc, ctx, ct, sc, fc, om, sts):
        """2-3 Python threads (seeded scheduler, pre-emption at the source lines / byte codes of transform.py) use one Ctransform
        object at the same time, each for a grain at its own position: everybody gets what the same call gives when made alone"""
        from pysched import pysched
        sim = ctx.sim
        c = desc["shared_ct"]
        trs = c["trs"]
        enginea.apply_cfg(sim, dict(desc["cfgP"], team=1), strict=0, track_conflicts=0, pct_est=100, step_cap=4000000000)
        sim.begin_run()
        viol = None
        with contextlib.redirect_stdout(io.StringIO()):
            x3 = ct.sf2xyz(sc, fc)
            solo = [(np.array(ct.sf2gv(sc, fc, om, *t)), np.array(ct.xyz2geometry(x3, om, *t))) for t in trs]
        results = [None] * len(trs)
        sched = pysched.Sched(c["sseed"], strategy=c["strategy"], p_inv=c["p_inv"], quantum=c["quantum"], pct_d=c["pct_d"],
                              pct_est=40 * len(trs), step_cap=200000, trace_files=[self.transform.__file__],
                              replay=desc.get("replay_py"))

        def worker(i):
            results[i] = (np.array(ct.sf2gv(sc, fc, om, *trs[i])), np.array(ct.xyz2geometry(x3, om, *trs[i])))

        def main():
            ths = [sched.spawn(lambda i=i: worker(i), "py%d" % i) for i in range(len(trs))]
            for th in ths:
                sched.join(th)
            return ths
        ths = []
        try:
            with contextlib.redirect_stdout(io.StringIO()):
                ths = sched.run(main) or []
        except pysched.Deadlock as e:
            viol = {"class": "deadlock", "key": "geometry:shared-ctransform:deadlock", "detail": str(e)}
        except pysched.StepCap as e:
            viol = {"class": "no-progress", "key": "geometry:shared-ctransform:no-progress", "detail": str(e)}
        sts.append(sim.stats())
        for i, th in enumerate(ths):
            if viol is None and getattr(th, "exc", None) is not None:
                if runner.is_harness_exception(th.exc):
                    raise th.exc
                viol = {"class": "raises", "key": "geometry:shared-ctransform:raises",
                        "detail": "thread %d of %d sharing one Ctransform: %s: %s" % (i, len(trs), type(th.exc).__name__, th.exc)}
        for i in range(len(trs)):
            if viol is not None:
                break
            if results[i] is None or results[i][0].tobytes() != solo[i][0].tobytes() or results[i][1].tobytes() != solo[i][1].tobytes():
                which = "sf2gv" if (results[i] is None or results[i][0].tobytes() != solo[i][0].tobytes()) else "xyz2geometry"
                viol = {"class": "not-reentrant", "key": "geometry:shared-ctransform:not-reentrant",
                        "detail": "%d Python threads use one Ctransform object, each for its own grain position: thread %d gets another "
                                  "%s result (position %s) than the same call made alone" % (len(trs), i, which, np.round(trs[i], 2).tolist())}
        return viol, len(trs)

    def describe(self, desc):
        return {"pars": desc["pars"], "npeaks": len(desc["sc"]), "cfg": desc["cfg"], "cfgP": desc["cfgP"],
                "route": desc["route"], "first_peak": [desc["sc"][0], desc["fc"][0], desc["omega"][0]]}

    def execute(self, desc, ctx):
        sim = ctx.sim
        tr, cfm, prm, pbp = self.transform, self.columnfile, self.parameters, self.pbp
        pars = desc["pars"]
        sc, fc, om = np.array(desc["sc"]), np.array(desc["fc"]), np.array(desc["omega"])
        n = len(sc)
        cfg, cfgP = desc["cfg"], desc["cfgP"]
        viol = None
        # ---------------- K: strict kernels
        ct = tr.Ctransform(pars)
        ct_other = tr.Ctransform(desc["other_ct"]) if desc.get("other_ct") else None   # stays alive to the end of the run
        tvec = np.array([pars["t_x"], pars["t_y"], pars["t_z"]])
        vals = {"s": sc, "f": fc, "p": ct.cen, "r": ct.rmat, "dist": ct.distance_vec, "xlylzl": [n, 3], "n": n}
        ret, a1, st1 = kernels.run_kernel(sim, "compute_xlylzl", vals,
                                          {"s": "in", "f": "in", "p": "in", "r": "in", "dist": "in", "xlylzl": "out"}, cfg,
                                          gstyle=desc["gstyle"], track_conflicts=0)
        sts = [st1]
        v = enginea.viol_from_stats(st1, "compute_xlylzl", kernels.region_names("compute_xlylzl"))
        xyz = a1["xlylzl"].copy()
        K = {}
        if v is None:
            vals = {"xlylzl": xyz, "omega": om, "omegasign": pars["omegasign"], "wvln": pars["wavelength"],
                    "wedge": pars["wedge"], "chi": pars["chi"], "t": tvec, "out": [n, 6], "ng": n}
            ret, a2, st2 = kernels.run_kernel(sim, "compute_geometry", vals,
                                              {"xlylzl": "in", "omega": "in", "t": "in", "out": "out"}, cfg,
                                              gstyle=desc["gstyle"], pct_est=max(20, 45 * n // cfg["team"]), track_conflicts=1)
            sts.append(st2)
            v = enginea.viol_from_stats(st2, "compute_geometry", kernels.region_names("compute_geometry"))
        if v is None:
            vals = {"xlylzl": xyz, "omega": om, "omegasign": pars["omegasign"], "wvln": pars["wavelength"],
                    "wedge": pars["wedge"], "chi": pars["chi"], "t": tvec, "gv": [n, 3], "ng": n}
            ret, a3, st3 = kernels.run_kernel(sim, "compute_gv", vals,
                                              {"xlylzl": "in", "omega": "in", "t": "in", "gv": "out"}, cfg,
                                              gstyle=desc["gstyle"], pct_est=max(20, 40 * n // cfg["team"]), track_conflicts=1)
            sts.append(st3)
            v = enginea.viol_from_stats(st3, "compute_gv", kernels.region_names("compute_gv"))
        if v is not None:
            viol = v
        else:
            out = a2["out"]
            for i, c in enumerate(("xl", "yl", "zl")):
                K[c] = xyz[:, i].copy()
            for i, c in enumerate(("tth", "eta", "ds", "gx", "gy", "gz")):
                K[c] = out[:, i].copy()
            gvK = a3["gv"]
            # two kernels, two pieces of code: equal to floating point accuracy (on the current tree even bitwise)
            dk = np.abs(gvK - out[:, 3:6])
            lim = 1e-9 * max(1.0, float(np.abs(out[:, 3:6]).max())) if n else 0.0
            if n and (not np.isfinite(gvK).all() or dk.max() > lim):
                viol = {"class": "kernels-disagree", "key": "compute_gv:kernels-disagree",
                        "detail": "compute_gv and compute_geometry give different g-vectors for the same input "
                                  "(max diff %.3g)" % dk.max()}
        # ---------------- concurrent callers of the kernels f2py runs without the GIL (each with its own parameter set)
        n_conc = 0
        if viol is None and K and desc.get("concurrent") and "compute_geometry" in self.threadsafe:
            others = desc["concurrent"]
            mk = lambda q: {"xlylzl": xyz, "omega": om, "omegasign": q["omegasign"], "wvln": q["wavelength"], "wedge": q["wedge"],
                            "chi": q["chi"], "t": np.array([q["t_x"], q["t_y"], q["t_z"]]), "out": [n, 6], "ng": n}
            roles = {"xlylzl": "in", "omega": "in", "t": "in", "out": "out"}
            solo = [a2["out"]]
            for q in others:
                r_, aq, stq = kernels.run_kernel(sim, "compute_geometry", mk(q), roles, dict(cfg, team=1), gstyle=desc["gstyle"],
                                                 track_conflicts=0)
                sts.append(stq)
                solo.append(aq["out"].copy())
            outs, stc = kernels.run_concurrent(sim, [("compute_geometry", mk(q), roles) for q in [pars] + others], desc["ccfg"],
                                               gstyle=desc["gstyle"], pct_est=max(40, 60 * n))
            sts.append(stc)
            n_conc = len(others) + 1
            v = enginea.viol_from_stats(stc, "compute_geometry", kernels.region_names("compute_geometry"))
            if v is not None:
                viol = v
            else:
                for q, (r_, arrs) in enumerate(outs):
                    if arrs["out"].tobytes() != solo[q].tobytes():
                        viol = {"class": "not-reentrant", "key": "compute_geometry:not-reentrant",
                                "detail": "%d Python threads inside compute_geometry at once, each with its own parameters (wedge/chi "
                                          "%s): caller %d gets other values than when it calls alone" %
                                          (n_conc, [(q2["wedge"], q2["chi"]) for q2 in [pars] + others], q)}
                        break
        # ---------------- R: reference (slow Python route)
        P = prm.parameters(**pars)
        base = cfm.colfile_from_dict({"sc": sc.copy(), "fc": fc.copy(), "omega": om.copy()})
        translation = None
        if desc["use_translation_arg"]:
            translation = (pars["t_x"], pars["t_y"], pars["t_z"])
            P2 = prm.parameters(**dict(pars, t_x=11.0, t_y=-7.0, t_z=3.0))  # must be overridden by the argument
        else:
            P2 = P
        cr = base.copy()
        with contextlib.redirect_stdout(io.StringIO()):
            cr.updateGeometry(pars=P2, translation=translation, fast=False)
        R = {c: np.asarray(cr.getcolumn(c)) for c in COLS}
        # branch-cut exclusion
        perp = np.hypot(R["yl"] - 0, R["zl"] - 0)
        cut = (np.abs(R["tth"]) < 1e-3) | (np.abs(np.abs(R["eta"]) - 180) < 1e-3) | (perp < 1e-3 * np.abs(R["xl"]))
        ok = ~cut

        def tol_compare(tag, A, cols):
            for c in cols:
                ref = R[c]
                scale = max(1.0, float(np.abs(ref).max())) if len(ref) else 1.0
                lim = 1e-7 if c in ("tth", "eta") else 1e-9 * scale
                d = np.abs(np.asarray(A[c]) - ref)
                if (d[ok] > lim).any() or not np.isfinite(np.asarray(A[c])[ok]).all():
                    k = int(np.argmax(np.where(ok, d, -1)))
                    return {"class": "differs-from-reference", "key": "geometry:%s:differs-from-reference" % tag,
                            "detail": "%s: column %s of peak %d is %.12g, the Python reference formulas give %.12g "
                                      "(diff %.3g > %.3g); pars %s" % (tag, c, k, np.asarray(A[c])[k], ref[k], d[k], lim,
                                                                       {kk: pars[kk] for kk in ("omegasign", "wedge", "chi", "o11", "o12", "o21", "o22", "t_x")})}
            return None

        if viol is None:
            viol = tol_compare("kernels", K, COLS)
        # ---------------- P: Python routes on the instrumented module under another schedule
        route = desc["route"]
        self.proxy.seed = cfgP["garbage_seed"] & 0xFFFFFFFF
        self.proxy.count = 0
        enginea.apply_cfg(sim, cfgP, strict=0, track_conflicts=0, pct_est=max(20, 45 * n // cfgP["team"]), step_cap=4000000000)
        sim.begin_run()
        Pcols = {}
        story_damage, position_story = None, 0
        lookback, lookback_damage, shared_ct_threads = 0, None, 0
        refusal_damage2 = None
        reread = 0
        refusal_damage = None
        with contextlib.redirect_stdout(io.StringIO()):
            hist = desc.get("history") if route in ("updateGeometry", "updateGV") else None
            cp = base.copy()
            pre = desc.get("preexisting") if not hist else None
            if desc.get("reread_xcyc") and not hist and route in ("updateGeometry", "updateGV") and n:
                pa = os.path.join(ctx.scratch, "c01_a_%d.h5" % os.getpid())
                pb = os.path.join(ctx.scratch, "c01_b_%d.h5" % os.getpid())
                for pth in (pa, pb):
                    if os.path.exists(pth):
                        os.remove(pth)
                cfm.colfile_to_hdf(cfm.colfile_from_dict({"sc": fc[::-1] + 3.0, "fc": sc[::-1] - 2.0, "omega": om.copy()}), pa, name="peaks")
                cfm.colfile_to_hdf(cfm.colfile_from_dict({"xc": sc.copy(), "yc": fc.copy(), "omega": om.copy()}), pb, name="peaks")
                cp = cfm.columnfile(pa)
                cp.readfile(pb)
                pre = None
                reread = 1
            if pre and route in ("updateGeometry", "updateGV"):
                shared = np.zeros(n)
                for c_ in COLS:
                    cp.addcolumn(np.zeros(n, np.float32) if pre == "f4" else shared, c_)
            P2live = P2
            if hist:
                fp = hist["first_pars"]
                if fp == "tiny":
                    # the last steps of a converging refinement: one detector parameter differs by a few parts per million
                    fp = dict(P2.parameters)
                    nm, rel = hist["tiny"]
                    fp[nm] = fp[nm] * (1 + rel) if fp[nm] != 0 else rel
                P2live = prm.parameters(**fp)
                (cp.updateGeometry if route == "updateGeometry" else cp.updateGV)(pars=P2live, fast=True)
                final = dict(P2.parameters)
                if hist["edit"] == "set":
                    for kk, vv in final.items():
                        cp.parameters.set(kk, vv)
                elif hist["edit"] == "set_parameters":
                    cp.parameters.set_parameters(final)
                else:
                    cp.parameters.parameters.update(final)
            if route == "updateGeometry" and hist:
                cp.updateGeometry(translation=translation, fast=True)
                Pcols = {c: np.asarray(cp.getcolumn(c)) for c in COLS}
            elif route == "updateGV" and hist:
                cp.updateGV(translation=translation, fast=True)
                Pcols = {c: np.asarray(cp.getcolumn(c)) for c in ("gx", "gy", "gz")}
            elif route == "updateGeometry":
                if desc.get("position_story") and translation is None:
                    # the table (and a second one holding the same parameter object) was first updated for a grain at another
                    # position, given as translation=; the update without it that follows is for the parameter set's own t
                    other = base.copy()
                    cp.updateGeometry(pars=P2, translation=(91.0, -17.5, 33.25), fast=desc["position_story"] == "fast")
                    other.updateGeometry(pars=P2, fast=True)
                    cp.updateGeometry(fast=True)
                    for c_ in COLS:
                        if np.asarray(other.getcolumn(c_)).tobytes() != np.asarray(cp.getcolumn(c_)).tobytes():
                            story_damage = c_
                            break
                    position_story = 1
                else:
                    cp.updateGeometry(pars=P2, translation=translation, fast=True)
                Pcols = {c: np.asarray(cp.getcolumn(c)) for c in COLS}
            elif route == "updateGV":
                cp.updateGV(pars=P2, translation=translation, fast=True)
                Pcols = {c: np.asarray(cp.getcolumn(c)) for c in ("gx", "gy", "gz")}
            elif route == "sf2gv":
                gv = ct.sf2gv(sc, fc, om, pars["t_x"], pars["t_y"], pars["t_z"])
                if desc.get("refused_call") and n > 1:
                    # the caller keeps one array for the g-vectors; a call that is refused must leave it as it was
                    kept = np.array(gv, copy=True)
                    try:
                        ct.sf2gv(sc, fc, om[:-1], pars["t_x"], pars["t_y"], pars["t_z"], out=gv)
                        refused = False
                    except Exception:
                        refused = True
                    if refused and gv.tobytes() != kept.tobytes():
                        refusal_damage = float(np.abs(gv - kept).max())
                    elif not refused:
                        gv = ct.sf2gv(sc, fc, om, pars["t_x"], pars["t_y"], pars["t_z"], out=gv)
                Pcols = {"gx": gv[:, 0], "gy": gv[:, 1], "gz": gv[:, 2]}
                x3 = ct.sf2xyz(sc, fc)
                o6 = ct.xyz2geometry(x3, om, pars["t_x"], pars["t_y"], pars["t_z"])
                for i_, c_ in enumerate(("xl", "yl", "zl")):
                    Pcols[c_] = x3[:, i_]
                for i_, c_ in enumerate(("tth", "eta", "ds")):
                    Pcols[c_] = o6[:, i_]
                if n > 1 and desc.get("refused_call"):
                    # xyz2geometry(out=...) with an array the kernel cannot fill in place (Fortran order / single precision):
                    # the call is refused, or the caller's array holds the result afterwards
                    of_ = np.asfortranarray(np.full((n, 6), 7.25)) if desc["gstyle"] == 0 else np.full((n, 6), 7.25, np.float32)
                    try:
                        ct.xyz2geometry(x3, om, pars["t_x"], pars["t_y"], pars["t_z"], out=of_)
                        if not np.allclose(np.asarray(of_, float), o6, rtol=1e-5, atol=1e-5, equal_nan=True):
                            refusal_damage2 = float(np.nanmax(np.abs(np.asarray(of_, float) - o6)))
                    except Exception:
                        pass
            else:
                # point-by-point: the grain position enters by shifting xl; compare with the kernel at t = 0
                pbp.parglobal = P
                gv, gx, gy, gz = pbp.get_local_gv(0, 0, 1.0, om, np.sin(np.radians(om)), np.cos(np.radians(om)),
                                                  xyz[:, 0].copy(), xyz[:, 1].copy(), xyz[:, 2].copy())
                Pcols = {"lgx": gx, "lgy": gy, "lgz": gz}
                # the next voxel is computed while the caller still holds this one's result
                kept_ = [np.array(a_, copy=True) for a_ in (gv, gx, gy, gz)]
                pbp.get_local_gv(3, -2, 1.0, om, np.sin(np.radians(om)), np.cos(np.radians(om)),
                                 xyz[:, 0].copy(), xyz[:, 1].copy(), xyz[:, 2].copy())
                for a_, k_ in zip((gv, gx, gy, gz), kept_):
                    if np.asarray(a_).tobytes() != k_.tobytes():
                        lookback_damage = "gve (get_local_gv result of the previous voxel)"
                lookback = 1
            if route in ("updateGeometry", "updateGV") and desc.get("lookback") and n and Pcols:
                before_ = {c_: np.array(Pcols[c_], copy=True) for c_ in Pcols}
                lb = base.copy()
                lb.updateGeometry(pars=P2, translation=(-40.0, 12.5, 3.0), fast=True)
                lb.updateGV(pars=P2, translation=(7.0, -1.0, 2.5), fast=True)
                lookback = 1
                for c_ in Pcols:
                    if np.asarray(cp.getcolumn(c_)).tobytes() != before_[c_].tobytes() or np.asarray(Pcols[c_]).tobytes() != before_[c_].tobytes():
                        lookback_damage = c_
                        break
        stP = sim.stats()
        sts.append(stP)
        if viol is None and story_damage is not None:
            viol = {"class": "fast-route-differs", "key": "geometry:position-leaks",
                    "detail": "after updateGeometry(translation=...) for a grain elsewhere, a table sharing the parameter object gives "
                              "another %s than the table that was updated without a translation" % story_damage}
        if viol is None and lookback_damage is not None:
            viol = {"class": "fast-route-differs", "key": "geometry:columns-change-later",
                    "detail": ("the g-vectors get_local_gv returned for one voxel changed when it was called for the next voxel (%s)" % route)
                    if lookback_damage.startswith("gve") else
                    ("column %s of a table changed when ANOTHER table of as many peaks was updated for a grain elsewhere "
                     "(%s, fast route)" % (lookback_damage, route))}
        if viol is None and route == "sf2gv" and desc.get("shared_ct") and n:
            viol, shared_ct_threads = self.shared_ct(desc, ctx, ct, sc, fc, om, sts)
        if viol is None and refusal_damage2 is not None:
            viol = {"class": "refused-call-modified-output", "key": "geometry:out-not-filled",
                    "detail": "xyz2geometry(out=array in Fortran order or single precision) returned without an error but the caller's "
                              "array does not hold the result (largest difference %.3g)" % refusal_damage2}
        if viol is None and refusal_damage is not None:
            viol = {"class": "refused-call-modified-output", "key": "geometry:refused-call-modified-output",
                    "detail": "sf2gv(out=gv) refused a call (omega one element short) but the caller's g-vector array was overwritten "
                              "(largest change %.3g)" % refusal_damage}
        if viol is None and K:
            if route == "get_local_gv":
                c0 = base.copy()
                with contextlib.redirect_stdout(io.StringIO()):
                    c0.updateGeometry(pars=prm.parameters(**dict(pars, t_x=0.0, t_y=0.0, t_z=0.0)), fast=False)
                for a, c in (("lgx", "gx"), ("lgy", "gy"), ("lgz", "gz")):
                    ref = np.asarray(c0.getcolumn(c))
                    d = np.abs(Pcols[a] - ref)
                    lim = 1e-9 * max(1.0, float(np.abs(ref).max()))
                    if (d[ok] > lim).any():
                        viol = {"class": "differs-from-reference", "key": "geometry:get_local_gv:differs-from-reference",
                                "detail": "get_local_gv: %s differs from the reference by %.3g" % (c, d[ok].max())}
                        break
            else:
                for c in Pcols:
                    if np.ascontiguousarray(Pcols[c]).tobytes() != np.ascontiguousarray(K[c]).tobytes():
                        k = int(np.argmax(Pcols[c] != K[c]))
                        viol = {"class": "fast-route-differs", "key": "geometry:fast-route-differs",
                                "detail": "%s (team %d %s) and the kernel route (team %d %s) give different %s for peak %d: "
                                          "%.17g vs %.17g" % (route, cfgP["team"], cfgP["strategy"], cfg["team"],
                                                              cfg["strategy"], c, k, Pcols[c][k], K[c][k])}
                        break
        # ---------------- numba copy
        if viol is None and desc["numba"]:
            p = pars
            x = pbp.compute_xyz_lab(sc, fc, p["y_center"], p["y_size"], p["tilt_y"], p["z_center"], p["z_size"], p["tilt_z"],
                                    p["tilt_x"], p["distance"], float(p["o11"]), float(p["o12"]), float(p["o21"]), float(p["o22"]))
            oms = om * p["omegasign"]
            tth, eta = pbp.compute_tth_eta_from_xyz(x, oms, p["t_x"], p["t_y"], p["t_z"], p["wedge"], p["chi"])
            kk = pbp.compute_k_vectors(tth, eta, p["wavelength"])
            gg = pbp.compute_g_from_k(kk, oms, p["wedge"], p["chi"])
            gg_again = pbp.compute_g_from_k(kk, oms, p["wedge"], p["chi"])    # the k-vectors are cached and used again
            ge = pbp.compute_gve(sc, fc, oms, 0.0, p["distance"], p["y_center"], p["y_size"], p["tilt_y"], p["z_center"],
                                 p["z_size"], p["tilt_z"], p["tilt_x"], float(p["o11"]), float(p["o12"]), float(p["o21"]),
                                 float(p["o22"]), p["t_x"], p["t_y"], p["t_z"], p["wedge"], p["chi"], p["wavelength"])
            N = {"xl": x[0], "yl": x[1], "zl": x[2], "tth": tth, "eta": eta, "gx": gg[0], "gy": gg[1], "gz": gg[2]}
            viol = tol_compare("numba", N, ["xl", "yl", "zl", "tth", "eta", "gx", "gy", "gz"])
            if viol is None:
                viol = tol_compare("numba-cached-k", {"gx": gg_again[0], "gy": gg_again[1], "gz": gg_again[2]}, ["gx", "gy", "gz"])
            if viol is None:
                viol = tol_compare("numba-gve", {"gx": ge[0], "gy": ge[1], "gz": ge[2]}, ["gx", "gy", "gz"])
        meas = None
        for st in sts:
            m = enginea.run_measures(st, cfg)
            if meas is None:
                meas = m
            else:
                for k in ("steps", "switches", "teams", "conflicts", "parallel_runs"):
                    meas[k] += m[k]
                for k2, v2 in m["team_delivered"].items():
                    meas["team_delivered"][k2] = meas["team_delivered"].get(k2, 0) + v2
        meas["route"] = {route: 1}
        meas["numba_checked"] = 1 if desc["numba"] else 0
        meas["concurrent_python_callers"] = n_conc
        meas["second_Ctransform_alive"] = 1 if ct_other is not None else 0
        meas["preexisting_derived_columns"] = {str(desc.get("preexisting")): 1}
        meas["table_object_reused_for_an_xc/yc_file"] = reread
        meas["update_after_a_translation=_update"] = position_story
        meas["another_table_updated_afterwards"] = lookback
        meas["python_threads_sharing_one_Ctransform"] = shared_ct_threads
        meas["history_runs(in-place parameter edit between updates)"] = 1 if (desc.get("history") and route in ("updateGeometry", "updateGV")) else 0
        meas["branch_cut_peaks_excluded"] = int(cut.sum())
        meas["np_empty_garbage_buffers"] = self.proxy.count
        meas["flip"] = {"%d%d%d%d" % (pars["o11"], pars["o12"], pars["o21"], pars["o22"]): 1}
        par = any(int(k) > 1 for st in sts for k in st["team_hist"])
        dig = enginea.sha([st["digest"] for st in sts], *[K[c] for c in COLS if c in K], *[Pcols[c] for c in sorted(Pcols)])
        sig = "%s/%s/%s/%s" % (enginea.sha(repr(sorted(pars.items())), sc, fc, om), cfg["team"], cfgP["team"],
                               [st["sched_sig"] for st in sts])
        return {"digest": dig, "sig": sig, "nontrivial": par, "viol": viol, "measures": meas}


CHECK = C01()
if __name__ == "__main__":
    sys.exit(runner.main(CHECK))
