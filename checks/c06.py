#!/venv/bin/python
"""
C06 - scoring and least-squares refinement kernels match their mathematical definition.

The three kernels (score, score_and_refine, refine_assigned) are serial: there is no schedule.  What makes
them a simulation target is the memory seam: they keep 3x3 accumulators on the stack, so their result is a
function of whatever the previous call left there unless they initialise them.  Engine A runs each call on a
simulator-owned, seed-filled stack, twice with complementary garbage (stack, outputs), in strict mode; the
results must be bitwise equal, inside their arguments, and equal to the definition:
count = #{peaks with |UBI.g - round(UBI.g)|^2 < tol^2}; UB = (sum g h^T)(sum h h^T)^-1; singular -> input unchanged.
"""
from __future__ import print_function
import os, sys, random, io, contextlib, math
sys.path.insert(0, os.path.dirname(os.path.dirname(os.path.abspath(__file__))))
import numpy as np
from common import runner, enginea, kernels


def rnd_ds_tol(seed):
    return [0.002, 0.005, 0.02][seed % 3]


def rot(g):
    q, r = np.linalg.qr(g.normal(size=(3, 3)))
    if np.linalg.det(q) < 0:
        q[:, 0] *= -1
    return q


def hkl_errors(ubi, gv):
    h0 = ubi[0, 0] * gv[:, 0] + ubi[0, 1] * gv[:, 1] + ubi[0, 2] * gv[:, 2]
    h1 = ubi[1, 0] * gv[:, 0] + ubi[1, 1] * gv[:, 1] + ubi[1, 2] * gv[:, 2]
    h2 = ubi[2, 0] * gv[:, 0] + ubi[2, 1] * gv[:, 1] + ubi[2, 2] * gv[:, 2]
    H = np.array([h0, h1, h2])
    I = np.round(H)
    T = H - I
    return H, I, T[0] * T[0] + T[1] * T[1] + T[2] * T[2]


def lsq(gv, ih):
    """normal equations in extended precision; returns (UBI, cond(H)) or (None, inf) when singular"""
    g = gv.astype(np.longdouble)
    h = ih.astype(np.longdouble)
    R = np.zeros((3, 3), np.longdouble)
    Hm = np.zeros((3, 3), np.longdouble)
    for i in range(3):
        for j in range(3):
            R[i, j] = np.sum(h[j] * g[:, i])
            Hm[i, j] = np.sum(h[j] * h[i])
    Hd = Hm.astype(float)
    if len(gv) < 3 or np.linalg.matrix_rank(Hd) < 3:
        return None, np.inf, Hd
    cond = np.linalg.cond(Hd)
    UB = R.astype(float) @ np.linalg.inv(Hd)
    if abs(np.linalg.det(UB)) < 1e-300:
        return None, np.inf, Hd
    return np.linalg.inv(UB), cond, Hd


class C06(object):
    id = "C06"
    engine = "simomp"
    time_keys = {"steps": "scheduler steps (one per instrumented access, GOMP entry or allocator call)"}
    fault_keys = ["switches", "realloc_moved", "realloc_stay", "alloc", "free", "parallel_runs", "concurrent_caller_runs"]
    tiers = {"quick": {"runs": 24000, "budget_s": 60, "selftest_every": 50, "fresh_selftest": 10},
             "thorough": {"runs": 9000000, "budget_s": 800, "selftest_every": 400, "fresh_selftest": 20}}
    rule = ("one run = (kernel score|score_and_refine|refine_assigned, UBI good or poor, 0..20000 peaks from integer "
            "hkl up to |h|~1000 + noise mixed with random vectors, tolerance, label selection incl. empty/coplanar) "
            "executed twice with complementary garbage on the simulator-owned stack and in the outputs; distinct = "
            "distinct (kernel, input digest); non-trivial = at least one peak indexed; in part of the runs also: concurrent caller threads, teams up to 8 with lists beyond 4096 peaks, non-finite and exactly coplanar g-vectors, matrices in other memory layouts through the wrapper, indexer.getind/score trial sequences on shared buffers (optionally ring-assigned, tolerance reassigned between trials)")
    components = {"real": enginea.COMPONENTS_REAL + ["score, score_and_refine, refine_assigned, inverse3x3 (machine code)",
                                                       "ImageD11.indexing.calc_drlv2 (second opinion for the count)"],
                  "stub": enginea.COMPONENTS_STUB}
    assumptions = ["peaks whose squared error is within 1e-12 of tol^2 or whose hkl is within 1e-9 of a half-integer "
                   "are regenerated (ties are not part of the property)",
                   "the refined matrix is compared only when cond(sum h h^T) < 1e8, with tolerance "
                   "1e-12*cond*|UBI|; singular selections are generated with products below 2^53 so that the "
                   "kernel's determinant is exact"]

    def prepare(self, ctx):
        enginea.prepare_sim(ctx, import_imaged11=True)
        kernels.check_against_pyf()
        from ImageD11 import indexing
        self.indexing = indexing

    def gen(self, rs, ctx):
        rnd = random.Random(rs)
        desc = self.draw_case(rnd, ctx, None)
        if desc["entry"] != "score" and rnd.random() < 0.2:
            # the pyf declares score_and_refine / refine_assigned threadsafe (GIL released): other caller threads run
            # the same kernel on their own arguments at the same time
            desc["concurrent"] = [self.draw_case(rnd, ctx, desc["entry"]) for _ in range(rnd.choice([1, 2, 3]))]
        if desc["entry"] != "refine_assigned" and len(desc["gv"]) and rnd.random() < 0.12:
            # indexer.getind / indexer.score as scorethem uses them: trial orientation after trial orientation with the
            # same two work buffers (the same grain found again from another pair of peaks, a twin, something else)
            desc["getind_seq"] = {"buffers": rnd.choice(["ones", "garbage", "garbage", "none"]), "bseed": rnd.getrandbits(32),
                                  # the indexer also knows the unit cell and has assigned its peaks to rings before the trials
                                  # (stray peaks far from every ring are left out of the ring-assigned subset)
                                  "rings": rnd.random() < 0.5,
                                  "trials": [{"which": rnd.choice(["same", "same", "perturbed", "twin", "other"]),
                                              "tol": rnd.choice([None, None, 0.05, 0.25, 0.5]), "seed": rnd.getrandbits(32),
                                              # the drivers change the tolerance by plain attribute assignment between trials
                                              "set_hkl_tol": rnd.choice([None, None, 0.02, 0.1, 0.3])}
                                             for _ in range(rnd.randint(2, 5))]}
        return desc

    def draw_case(self, rnd, ctx, kern):
        g = np.random.default_rng(rnd.getrandbits(48))
        kern = kern or rnd.choice(["score", "score_and_refine", "score_and_refine", "refine_assigned", "refine_assigned"])
        a = g.uniform(3, 12, 3) * rnd.choice([1, 1, 1, 8, 30])  # up to protein-sized cells (volume > 1e6 A^3)
        ubi_true = np.diag(a) @ rot(g).T
        if rnd.random() < 0.4:  # triclinic-ish + strain
            ubi_true = ubi_true @ (np.eye(3) + g.normal(0, 0.02, (3, 3)))
        sel = rnd.choice(["normal", "normal", "normal", "normal", "empty", "one", "two", "coplanar", "collinear", "gv_coplanar"])
        n = rnd.choice([3, 4, 6, 10, 40, 200] + ([2000, 20000] if (ctx.tier == "thorough" and rnd.random() < 0.2) else [1000]))
        if rnd.random() < 0.06:
            n = rnd.choice([4095, 4096, 4097, 5000, 8193, 9000])   # beyond the chunk size the OpenMP loops of this file use
        hmax = rnd.choice([3, 8, 30, 1000]) if sel == "normal" else rnd.choice([3, 8])
        if sel == "normal" and n > 4000 and rnd.random() < 0.5:
            hmax = rnd.choice([600, 1000])    # long lists of high-index peaks: sums of h*h beyond 2^31
        hkl = g.integers(-hmax, hmax + 1, (n, 3)).astype(float)
        if sel == "empty":
            n = rnd.choice([0, 5])
            hkl = hkl[:n]
        elif sel == "one":
            hkl = hkl[:1]
        elif sel == "two":
            hkl = hkl[:2]
        elif sel == "coplanar":
            hkl[:, rnd.randrange(3)] = 0
        elif sel == "collinear":
            hkl = np.outer(g.integers(-5, 6, len(hkl)), [1, 2, -1]).astype(float)
        ub = np.linalg.inv(ubi_true)
        noise = rnd.choice([0.0, 1e-5, 1e-3, 5e-3])
        gv = hkl @ ub.T + g.normal(0, noise, hkl.shape) if len(hkl) else np.zeros((0, 3))
        nrand = 0
        if sel == "normal" and rnd.random() < 0.5:
            nrand = rnd.choice([1, 5, 50])
            gv = np.vstack([gv, g.normal(0, 0.4, (nrand, 3))])
        poor = (sel == "normal" and rnd.random() < 0.2) or sel == "gv_coplanar"
        ubi = ubi_true @ (np.eye(3) + g.normal(0, 0.01 if poor else 1e-4, (3, 3)))
        if sel == "gv_coplanar":
            # g-vectors exactly in one plane (a single layer of reciprocal space) while their rounded hkl under this poorly
            # matching matrix are not: sum h h^T can be inverted, the fitted UB cannot
            gv[:, rnd.randrange(3)] = 0.0
        if sel == "empty" and n:
            gv = gv + 0.37 * ub[:, 0]  # nothing indexes
        tol = rnd.choice([0.01, 0.05, 0.1, 0.25, 0.5])
        labels = None
        label = 0
        if kern == "refine_assigned":
            label = rnd.choice([0, 1, 7])
            labels = np.where(g.random(len(gv)) < rnd.choice([0.0, 0.3, 0.7, 1.0]), label, label + 1 + g.integers(0, 2, len(gv))).astype(np.int32)
            if sel in ("one", "two", "coplanar", "collinear", "empty", "gv_coplanar"):
                labels[:] = label if sel != "empty" else label + 1
        if sel == "normal" and kern != "refine_assigned" and len(gv) and rnd.random() < 0.12:
            # peaks without a usable g-vector (NaN from a failed correction, inf from a division by zero): within no tolerance
            for _ in range(rnd.randint(1, 3)):
                gv[rnd.randrange(len(gv)), rnd.randrange(3) if rnd.random() < 0.7 else slice(None)] = rnd.choice([float("nan"), float("inf"), float("-inf")])
        if sel == "normal" and len(gv) and rnd.random() < 0.1:
            # zero g-vectors (padding rows, a direct-beam leak): hkl = 000, within every tolerance
            for _ in range(rnd.randint(1, 3)):
                gv[rnd.randrange(len(gv))] = 0.0
        gv = np.ascontiguousarray(gv)
        dyadic = sel == "normal" and np.isfinite(gv).all() and kern != "refine_assigned" and rnd.random() < 0.12
        if dyadic:
            # exact arithmetic: UBI = 2^k * signed permutation, g on a 1/64 grid, tol^2 dyadic.  Every product and sum
            # below is exact in binary floating point, so "error == tol^2" is a well defined input and the documented
            # comparison (strictly below the tolerance) decides it the same way in C and in the Python reference
            sel = "dyadic-exact-ties"
            k2 = rnd.choice([2.0, 4.0, 8.0])
            perm = np.eye(3)[list(g.permutation(3))] * g.choice([-1.0, 1.0], 3)[:, None]
            ubi = k2 * perm
            nn = rnd.choice([6, 20, 100, 400])
            frac = g.integers(-6, 7, (nn, 3)) / 16.0          # fractional hkl parts, never +-1/2
            hk = g.integers(-5, 6, (nn, 3)).astype(float)
            gv = np.ascontiguousarray((hk + frac) @ np.linalg.inv(ubi).T)
            tol = rnd.choice([1 / 8.0, 1 / 4.0, 5 / 16.0, 3 / 16.0, 1 / 2.0])
        # regenerate ties away: nudge peaks that sit on a decision boundary
        H, I, ss = hkl_errors(ubi, gv) if len(gv) else (np.zeros((3, 0)), np.zeros((3, 0)), np.zeros(0))
        if dyadic:
            tie = (np.abs(np.abs(H - np.floor(H)) - 0.5) < 1e-9).any(axis=0)
        else:
            tie = (np.abs(ss - tol * tol) <= 1e-12) | (np.abs(np.abs(H - np.floor(H)) - 0.5) < 1e-9).any(axis=0)
        gv = gv[~tie]
        if labels is not None:
            labels = labels[~tie]
        return {"entry": kern, "ubi": ubi.tolist(), "gv": gv.tolist(), "tol": tol, "sel": sel,
                "labels": None if labels is None else labels.tolist(), "label": label,
                "cfg": enginea.draw_cfg(rnd, max_team=8), "gstyle": rnd.choice([0, 1]),
                "ubi_layout": rnd.choice([None, None, None, "f", "t", "s"])}

    def describe(self, desc):
        return {"entry": desc["entry"], "sel": desc["sel"], "tol": desc["tol"], "npeaks": len(desc["gv"]),
                "ubi": desc["ubi"], "first_peaks": desc["gv"][:3]}

    def execute(self, desc, ctx):
        sim = ctx.sim
        kern = desc["entry"]
        cfg = desc["cfg"]
        ubi = np.array(desc["ubi"])
        gv = np.array(desc["gv"], float).reshape(-1, 3)
        n = len(gv)
        tol = desc["tol"]
        outs = []
        viol = None
        st0 = None
        ss_all = hkl_errors(ubi, gv)[2] if n else np.zeros(0)
        for flip in (False, True):
            if kern == "score":
                vals = {"ubi": ubi, "gv": gv, "tol": tol, "ng": n}
                roles = {"ubi": "in", "gv": "in"}
            elif kern == "score_and_refine":
                vals = {"ubi": ubi, "gv": gv, "tol": tol, "n": [1], "sumdrlv2": [1], "ng": n}
                roles = {"ubi": "io", "gv": "in", "n": "out", "sumdrlv2": "out"}
            else:
                vals = {"ubi": ubi, "gv": gv, "labels": np.array(desc["labels"], np.int32), "label": desc["label"],
                        "npk": [1], "drlv2": [1], "ng": n}
                roles = {"ubi": "io", "gv": "in", "labels": "in", "npk": "out", "drlv2": "out"}
            ret, arr, st = kernels.run_kernel(sim, kern, vals, roles, cfg, flip=flip, gstyle=desc["gstyle"],
                                              step_cap=200 * n + 100000, track_conflicts=0)
            if st0 is None:
                st0 = st
            v = enginea.viol_from_stats(st, kern, kernels.region_names(kern))
            if v is None and st["guard_broken"]:
                v = {"class": "oob", "key": kern + ":oob", "detail": "guard bytes overwritten next to %s" % st["guard_broken"]}
            if v is not None:
                viol = v
                break
            outs.append((ret, {k: arr[k].copy() for k in arr if roles[k] in ("io", "out")}))
        nidx = 0
        if viol is None:
            (r1, a1), (r2, a2) = outs
            if r1 != r2 or any(a1[k].tobytes() != a2[k].tobytes() for k in a1):
                which = [k for k in a1 if a1[k].tobytes() != a2[k].tobytes()]
                viol = {"class": "garbage-dependent", "key": kern + ":garbage-dependent",
                        "detail": "two runs that differ only in the previous content of the stack/outputs disagree in %s "
                                  "(e.g. %s vs %s): result computed from uninitialised memory" %
                                  (which or "return value", a1[which[0]].ravel()[:3] if which else r1,
                                   a2[which[0]].ravel()[:3] if which else r2)}
        if viol is None:
            H, I, ss = hkl_errors(ubi, gv) if n else (np.zeros((3, 0)), np.zeros((3, 0)), np.zeros(0))
            if kern == "refine_assigned":
                selmask = np.array(desc["labels"], int) == desc["label"] if n else np.zeros(0, bool)
            else:
                selmask = ss < tol * tol
            nidx = int(selmask.sum())
            ret, a = outs[0]
            got_n = ret if kern == "score" else int(a["n" if kern == "score_and_refine" else "npk"][0])
            if got_n != nidx:
                viol = {"class": "count-differs", "key": kern + ":count-differs",
                        "detail": "%s counted %d peaks, definition gives %d (tol %g, %d peaks)" % (kern, got_n, nidx, tol, n)}
            elif kern != "refine_assigned" and n:
                npy = int((self.indexing.calc_drlv2(ubi, gv) < tol * tol).sum())
                margin = np.nanmin(np.abs(np.where(np.isfinite(ss), ss, np.inf) - tol * tol)) if n else 1
                if npy != got_n and (margin > 1e-9 or desc["sel"] == "dyadic-exact-ties"):
                    viol = {"class": "count-differs-python", "key": kern + ":count-differs-python",
                            "detail": "kernel %d vs indexing.calc_drlv2 %d" % (got_n, npy)}
            if viol is None and kern != "score":
                mse_got = float(a["sumdrlv2" if kern == "score_and_refine" else "drlv2"][0])
                mse = float(ss[selmask].sum() / nidx) if nidx else 0.0
                if abs(mse_got - mse) > 1e-12 * max(abs(mse), 1e-30) + 1e-300:
                    viol = {"class": "mse-differs", "key": kern + ":mse-differs",
                            "detail": "mean squared error returned %.17g, definition %.17g" % (mse_got, mse)}
            if viol is None and kern != "score":
                want, cond, Hd = lsq(gv[selmask], I[:, selmask])
                got = a["ubi"]
                exact = np.abs(Hd).max() * np.abs(Hd).max() * np.abs(Hd).max() < 2.0 ** 52 if Hd.size else True
                if want is None:
                    if exact and got.tobytes() != ubi.tobytes():
                        viol = {"class": "singular-not-unchanged", "key": kern + ":singular-not-unchanged",
                                "detail": "normal equations are singular (%d peaks selected, rank %d) but the matrix "
                                          "was modified: %s -> %s" % (nidx, np.linalg.matrix_rank(Hd), ubi.ravel()[:3], got.ravel()[:3])}
                elif cond < 1e8:
                    err = np.abs(got - want).max()
                    lim = 1e-12 * cond * np.abs(want).max() + 1e-13
                    if not (err <= lim):
                        viol = {"class": "refined-matrix-differs", "key": kern + ":refined-matrix-differs",
                                "detail": "refined UBI differs from the least-squares solution by %.3g (limit %.3g, cond %.3g, "
                                          "%d peaks)" % (err, lim, cond, nidx)}
        nconc = 0
        if viol is None and desc.get("concurrent"):
            viol, nconc = self.exec_concurrent(desc, ctx)
        nwrap = 0
        if viol is None and kern == "score_and_refine" and n and desc.get("ubi_layout"):
            # the same call the way Python callers make it, with the matrix in another memory layout (Fortran order, a
            # transposed view, a slice of a stack): the wrapper declares the matrix in/out, so it must either refuse the
            # array or leave the refined matrix in it
            from ImageD11 import cImageD11 as cmod
            L = desc["ubi_layout"]
            if L == "f":
                m = np.asfortranarray(ubi.copy())
            elif L == "t":
                m = np.ascontiguousarray(ubi.T).T
            else:
                stack = np.zeros((3, 3, 2))
                stack[:, :, 1] = ubi
                m = stack[:, :, 1]
            enginea.apply_cfg(sim, cfg, strict=0, track_conflicts=0, pct_est=max(50, 40 * n), step_cap=2000000000)
            sim.begin_run()
            try:
                with contextlib.redirect_stdout(io.StringIO()):
                    cmod.score_and_refine(m, gv, tol)
                accepted = True
            except Exception:
                accepted = False
            nwrap = 1
            want_m = outs[0][1]["ubi"]
            if accepted and not np.array_equal(np.asarray(m), want_m):
                viol = {"class": "refined-matrix-not-delivered", "key": "score_and_refine:refined-matrix-not-delivered",
                        "detail": "cImageD11.score_and_refine accepted a %s matrix but did not leave the refined matrix in it (largest "
                                  "difference %.3g)" % ({"f": "Fortran-ordered", "t": "transposed-view", "s": "stack-slice"}[L],
                                                        float(np.abs(np.asarray(m) - want_m).max()))}
        ntrials = 0
        if viol is None and desc.get("getind_seq"):
            viol, ntrials = self.exec_getind(desc, ctx)
        meas = enginea.run_measures(st0, cfg)
        meas["concurrent_caller_runs"] = 1 if nconc else 0
        meas["getind_trials_on_shared_buffers"] = ntrials
        meas["wrapper_calls_with_other_matrix_layout"] = nwrap
        meas["peaks_beyond_one_chunk"] = 1 if n > 4096 else 0
        meas["kernel"] = {kern: 1}
        meas["selection"] = {desc["sel"]: 1}
        meas["peaks_exactly_on_the_tolerance"] = int((ss_all == tol * tol).sum())
        ret0 = outs[0] if outs else None
        dig = enginea.sha(st0["digest"], repr(ret0[0]) if ret0 else None, *([ret0[1][k] for k in sorted(ret0[1])] if ret0 else []))
        return {"digest": dig, "sig": enginea.sha(kern, ubi, gv, tol, desc["labels"], desc["label"]),
                "nontrivial": nidx > 0, "viol": viol, "measures": meas}


    def exec_getind(self, desc, ctx):
        """indexer.getind(UBI, tol, drlv2tmp, labelstmp) and indexer.score(UBI, tol) for a sequence of trial orientations on
        one indexer and one pair of work buffers: every answer is the set / number of peaks within tolerance of that
        orientation alone"""
        sim = ctx.sim
        cfg = desc["cfg"]
        ubi = np.array(desc["ubi"])
        gv = np.array(desc["gv"], float).reshape(-1, 3)
        n = len(gv)
        gs = desc["getind_seq"]
        enginea.apply_cfg(sim, cfg, strict=0, track_conflicts=0, pct_est=max(50, 40 * n), step_cap=2000000000)
        sim.begin_run()
        with contextlib.redirect_stdout(io.StringIO()):
            ix = self.indexing.indexer(gv=gv, hkl_tol=desc["tol"])
            fin = np.isfinite(gv).all()
            if gs.get("rings") and fin and n <= 1200 and float(np.abs(ubi @ gv.T).max()) < 15 and abs(np.linalg.det(ubi)) < 4000:
                from ImageD11 import unitcell as ucmod
                try:
                    uc = ucmod.unitcell(self.indexing.ubitocellpars(ubi), "P")
                    ix = self.indexing.indexer(unitcell=uc, gv=gv, wavelength=0.3, hkl_tol=desc["tol"], ds_tol=rnd_ds_tol(gs["bseed"]))
                    ix.assigntorings()
                    self.rings_assigned = getattr(self, "rings_assigned", 0) + 1
                except Exception as e:
                    if runner.is_harness_exception(e):
                        raise
                    # ring assignment is not this property's business (it fails, e.g., for a peak list that holds only the
                    # origin: no ring below d* = 0): carry on with the plain indexer
                    ix = self.indexing.indexer(gv=gv, hkl_tol=desc["tol"])
        gb = np.random.default_rng(gs["bseed"])
        if gs["buffers"] == "none":
            b1 = b2 = None
        elif gs["buffers"] == "ones":
            b1, b2 = np.ones(n), np.zeros(n, np.int32)
        else:   # what np.empty may hand out
            b1, b2 = gb.random(n) * gb.choice([1e-6, 1.0, 1e6]), gb.integers(-3, 4, n).astype(np.int32)
        for t, tr in enumerate(gs["trials"]):
            g = np.random.default_rng(tr["seed"])
            if tr["which"] == "same":
                U = ubi.copy()
            elif tr["which"] == "perturbed":
                U = ubi @ (np.eye(3) + g.normal(0, 2e-3, (3, 3)))
            elif tr["which"] == "twin":
                U = np.array([[0, 1, 0], [1, 0, 0], [0, 0, -1.0]]) @ ubi
            else:
                U = np.diag(g.uniform(3, 12, 3)) @ rot(g).T
            U = np.ascontiguousarray(U)
            tol = tr["tol"]
            if tr.get("set_hkl_tol") is not None:
                ix.hkl_tol = tr["set_hkl_tol"]
            teff = float(ix.hkl_tol) if tol is None else tol
            ss = hkl_errors(U, gv)[2]
            margin = np.abs(np.where(np.isfinite(ss), ss, np.inf) - teff * teff)
            if margin.min() <= 1e-12:
                continue    # a peak exactly on the decision boundary of this trial: ties are not part of the property
            want = ss < teff * teff
            with contextlib.redirect_stdout(io.StringIO()):
                got = np.asarray(ix.getind(U, tol, b1, b2)) if tol is not None or b1 is not None else np.asarray(ix.getind(U))
                cnt = ix.score(U, tol)
            if got.shape != want.shape or (got != want).any():
                k = int(np.argmax(got != want)) if got.shape == want.shape else -1
                return {"class": "getind-differs", "key": "indexer.getind:getind-differs",
                        "detail": "trial %d of %d on one indexer (%s orientation, work buffers %s): getind marks %d peaks, %d lie within "
                                  "the tolerance %g of it (first difference at peak %d, error %.6g)" %
                                  (t + 1, len(gs["trials"]), tr["which"], gs["buffers"], int(got.sum()), int(want.sum()), teff, k,
                                   float(np.sqrt(ss[k])) if k >= 0 else -1)}, t + 1
            if int(cnt) != int(want.sum()):
                return {"class": "count-differs", "key": "indexer.score:count-differs",
                        "detail": "indexer.score gives %d for trial %d, %d peaks lie within the tolerance" % (cnt, t + 1, int(want.sum()))}, t + 1
        if np.isfinite(gv).all() and n:
            # the validation histogram of |drlv| for the trial orientation: its cumulative counts are the numbers of peaks
            # below each bin edge
            with contextlib.redirect_stdout(io.StringIO()):
                ix.ubis = [ubi.copy()]
                ix.histogram_drlv_fit()
            dr = np.sqrt(hkl_errors(ubi, gv)[2])
            edges = np.asarray(ix.bins, float)
            if np.abs(dr[:, None] - edges[None, :]).min() > 1e-9:
                wanth = np.array([int(((dr >= lo) & (dr < hi)).sum()) for lo, hi in zip(edges[:-1], edges[1:])])
                goth = np.asarray(ix.histogram)[0]
                self.histograms = getattr(self, "histograms", 0) + 1
                if goth.shape != wanth.shape or (goth != wanth).any():
                    kb = int(np.argmax(goth != wanth)) if goth.shape == wanth.shape else -1
                    return {"class": "count-differs", "key": "indexer.histogram_drlv_fit:count-differs",
                            "detail": "histogram_drlv_fit: bin %d [%g, %g) holds %s peaks, %d peaks have their |drlv| there" %
                                      (kb, edges[kb], edges[kb + 1], goth[kb] if kb >= 0 else "?", wanth[kb])}, len(gs["trials"])
        if np.isfinite(gv).all() and n and getattr(ix, "ra", None) is not None:
            # indexer.refine: the score and fit it reports are those of the matrix it returns
            g4 = np.random.default_rng(gs["bseed"] + 9)
            Ustart = np.ascontiguousarray(ubi @ (np.eye(3) + g4.normal(0, g4.choice([1e-4, 3e-3, 1.5e-2]), (3, 3))))
            ix.hkl_tol = float(desc["tol"])
            try:
                with contextlib.redirect_stdout(io.StringIO()):
                    Uo = np.asarray(ix.refine(Ustart), float)
                refined = True
            except Exception:
                refined = False       # "no contributing reflections": nothing to report
            if refined:
                sso = hkl_errors(Uo, gv)[2]
                t2 = float(desc["tol"]) ** 2
                # a degenerate fit (all contributing hkl in one plane) returns a matrix with entries of 1e16: U.g then cancels
                # catastrophically and its fractional part depends on the order of summation - nothing to compare
                # (and beyond 2^52 floor(h + 0.5) and round(h) differ by one): indices of a million and more are not indices
                hd_ = np.dot(Uo, gv.T)
                ssd_ = ((hd_ - np.round(hd_)) ** 2).sum(axis=0)
                if np.abs(sso - t2).min() > 1e-9 and np.abs(ssd_ - sso).max() < 1e-9 and np.abs(hd_).max() < 1e6:
                    selo = (sso < t2) & (np.asarray(ix.ra) > -1)
                    if int(ix.scorelastrefined) != int(selo.sum()) or (selo.any() and
                            abs(float(ix.fitlastrefined) - math.sqrt(float(sso[selo].mean()))) > 1e-9 * max(1.0, float(ix.fitlastrefined))):
                        return {"class": "count-differs", "key": "indexer.refine:count-differs",
                                "detail": "indexer.refine reports %d peaks (fit %.6g) for the matrix it returns; %d ring-assigned peaks lie within "
                                          "the tolerance of it (fit %.6g)" % (int(ix.scorelastrefined), float(ix.fitlastrefined), int(selo.sum()),
                                                                              math.sqrt(float(sso[selo].mean())) if selo.any() else 0.0)}, len(gs["trials"])
        if np.isfinite(gv).all() and n > 1:
            # the indexer is given other g-vectors of the same number (the next grid point of a map, a second file): scores
            # and indexed peaks are those of the g-vectors it holds now
            g3 = np.random.default_rng(gs["bseed"] + 5)
            gv2 = np.ascontiguousarray(gv[g3.permutation(n)] * np.array([1.0, 1.03, 0.98]) + g3.normal(0, 2e-3, (n, 3)))
            teff = float(desc["tol"])
            ss2 = hkl_errors(ubi, gv2)[2]
            if np.abs(ss2 - teff * teff).min() > 1e-12:
                with contextlib.redirect_stdout(io.StringIO()):
                    ix.gv = gv2
                    cnt2 = ix.score(ubi, teff)
                    got2 = np.asarray(ix.getind(ubi, teff))
                want2 = ss2 < teff * teff
                if int(cnt2) != int(want2.sum()) or got2.shape != want2.shape or (got2 != want2).any():
                    return {"class": "count-differs", "key": "indexer.score:count-differs",
                            "detail": "after the indexer was given %d other g-vectors: score %d / getind %d, %d lie within the tolerance" %
                                      (n, int(cnt2), int(got2.sum()), int(want2.sum()))}, len(gs["trials"])
        v = enginea.viol_from_stats(sim.stats(), "indexer.getind", {})
        return v, len(gs["trials"])

    def _call_spec(self, case):
        kern = case["entry"]
        ubi = np.array(case["ubi"])
        gv = np.array(case["gv"], float).reshape(-1, 3)
        n = len(gv)
        if kern == "score_and_refine":
            return (kern, {"ubi": ubi, "gv": gv, "tol": case["tol"], "n": [1], "sumdrlv2": [1], "ng": n},
                    {"ubi": "io", "gv": "in", "n": "out", "sumdrlv2": "out"})
        return (kern, {"ubi": ubi, "gv": gv, "labels": np.array(case["labels"], np.int32), "label": case["label"],
                       "npk": [1], "drlv2": [1], "ng": n},
                {"ubi": "io", "gv": "in", "labels": "in", "npk": "out", "drlv2": "out"})

    def exec_concurrent(self, desc, ctx):
        """each caller's refined matrix / count / error must equal what the same call gives when made alone"""
        sim = ctx.sim
        cfg = dict(desc["cfg"], team=1)
        cases = [desc] + desc["concurrent"]
        specs = [self._call_spec(c) for c in cases]
        solos = []
        for kern, vals, roles in specs:
            ret, arr, st = kernels.run_kernel(sim, kern, vals, roles, cfg, gstyle=desc["gstyle"], track_conflicts=0)
            v = enginea.viol_from_stats(st, kern, kernels.region_names(kern))
            if v is not None:
                return v, len(cases)
            solos.append({k: arr[k].copy() for k in arr if roles[k] in ("io", "out")})
        outs, st = kernels.run_concurrent(sim, specs, dict(cfg, strategy=desc["cfg"]["strategy"]), gstyle=desc["gstyle"],
                                          pct_est=max(50, 30 * max(len(c["gv"]) for c in cases)))
        v = enginea.viol_from_stats(st, desc["entry"], {})
        if v is not None:
            v["key"] = desc["entry"] + ":concurrent:" + v["class"]
            return v, len(cases)
        for k, (kern, vals, roles) in enumerate(specs):
            ret, arr = outs[k]
            for name, want in solos[k].items():
                if arr[name].tobytes() != want.tobytes():
                    return {"class": "not-reentrant", "key": kern + ":not-reentrant",
                            "detail": "%d caller threads ran %s at the same time on their own arguments; caller %d got %s = %s, "
                                      "alone the same call gives %s (state shared between calls)" %
                                      (len(cases), kern, k, name, arr[name].ravel()[:3], want.ravel()[:3])}, len(cases)
        return None, len(cases)


CHECK = C06()
if __name__ == "__main__":
    sys.exit(runner.main(CHECK))
