#!/venv/bin/python
"""
C07 - every peak is assigned to its best-fitting grain, whatever the order or threads.

Engine A (simomp).  Three routes, all on the real -O2 kernels under the simulated OpenMP runtime:
  kernel   : score_and_assign called grain after grain (strict mode: bounds checked, guard-separated buffers)
  fight    : indexing.indexer.fight_over_peaks (unchanged Python on the instrumented module)
  assign   : refinegrains.assignlabels (per-grain compute_gv + score_and_assign, unchanged Python)
One run = (grains incl. twins / near duplicates, peaks up to beyond the 4096 static chunk, tolerance, a
seeded grain order, team 1..32, strategy, interleaving).  Oracle: independent numpy model - label = argmin
over grains of the squared hkl error among grains below tol^2, stored error = that minimum, unassigned = -1,
per-call return value = peaks newly taken under the sequential semantics, gas = histogram of labels.
"""
from __future__ import print_function
import os, sys, random, io, contextlib
sys.path.insert(0, os.path.dirname(os.path.dirname(os.path.abspath(__file__))))
import numpy as np
from common import runner, enginea, kernels
from common.enginea import simlib


def rot(g, ang=None):
    q, r = np.linalg.qr(g.normal(size=(3, 3)))
    if np.linalg.det(q) < 0:
        q[:, 0] *= -1
    return q


def errs(ubi, gv):
    """squared hkl error, evaluated in the same order as the C source (bit-identical without FMA)"""
    h0 = ubi[0, 0] * gv[:, 0] + ubi[0, 1] * gv[:, 1] + ubi[0, 2] * gv[:, 2]
    h1 = ubi[1, 0] * gv[:, 0] + ubi[1, 1] * gv[:, 1] + ubi[1, 2] * gv[:, 2]
    h2 = ubi[2, 0] * gv[:, 0] + ubi[2, 1] * gv[:, 1] + ubi[2, 2] * gv[:, 2]
    t0 = h0 - np.round(h0)
    t1 = h1 - np.round(h1)
    t2 = h2 - np.round(h2)
    return t0 * t0 + t1 * t1 + t2 * t2


def model_final(E, tol, init, exact=False):
    """E: (ngrains, npeaks) squared errors; returns (labels index into grain list or -1, best error, ambiguous mask)"""
    ng, n = E.shape
    ok = (E < tol * tol) & (E < init)
    Em = np.where(ok, E, np.inf)
    best = Em.min(axis=0) if ng else np.full(n, np.inf)
    arg = Em.argmin(axis=0) if ng else np.zeros(n, int)
    lab = np.where(np.isfinite(best), arg, -1)
    # ambiguity: a second grain within 1e-12 relative of the best, or a decision within 1e-12 of a threshold
    amb = np.zeros(n, bool)
    if ng > 1:
        srt = np.sort(Em, axis=0)
        second = srt[1]
        with np.errstate(invalid="ignore"):
            amb |= np.isfinite(best) & (np.abs(second - best) <= 1e-12 * np.maximum(best, 1e-300) + 1e-18)
    if not exact:    # in exact (dyadic) arithmetic "error == tol^2" is a well defined input: not within the tolerance
        near = np.abs(E - tol * tol) <= 1e-12
        amb |= near.any(axis=0) if ng else False
    return lab, np.where(np.isfinite(best), best, init), amb


def model_sequential(E, tol, init, order):
    """per-call return values under the kernel's sequential semantics"""
    n = E.shape[1]
    drl = np.full(n, float(init))
    rets = []
    for gi in order:
        take = (E[gi] < tol * tol) & (E[gi] < drl)
        drl = np.where(take, E[gi], drl)
        rets.append(int(take.sum()))
    return rets


def make_grains(rnd, g, ngr):
    ubis = []
    a0 = g.uniform(3, 8, 3)
    for k in range(ngr):
        mode = rnd.choice(["new", "new", "twin", "near", "dup"]) if ubis else "new"
        if mode == "new":
            ubi = np.diag(a0 * g.uniform(0.98, 1.02, 3)) @ rot(g).T
        elif mode == "twin":  # shares a sub-lattice of hkl with a previous grain
            base = ubis[rnd.randrange(len(ubis))]
            P = np.array(rnd.choice([[[0, 1, 0], [1, 0, 0], [0, 0, -1]], [[1, 0, 0], [0, -1, 0], [0, 0, -1]],
                                     [[0, 0, 1], [1, 0, 0], [0, 1, 0]]]), float)
            ubi = P @ base
        elif mode == "near":
            base = ubis[rnd.randrange(len(ubis))]
            ubi = base @ (np.eye(3) + g.normal(0, 2e-3, (3, 3)))
        else:
            ubi = ubis[rnd.randrange(len(ubis))].copy()  # same UBI under another label: exact tie
        ubis.append(np.ascontiguousarray(ubi))
    return ubis


def make_peaks(rnd, g, ubis, n):
    gv = np.empty((n, 3))
    src = g.integers(0, len(ubis) + 1, n)
    for k in range(len(ubis)):
        m = src == k
        hkl = g.integers(-8, 9, (int(m.sum()), 3)).astype(float)
        gv[m] = hkl @ np.linalg.inv(ubis[k]).T + g.normal(0, rnd.choice([1e-4, 2e-3, 1e-2]), (int(m.sum()), 3))
    m = src == len(ubis)
    gv[m] = g.normal(0, 0.5, (int(m.sum()), 3))
    return gv


class C07(object):
    id = "C07"
    engine = "simomp"
    time_keys = {"steps": "scheduler steps (one per instrumented access, GOMP entry or allocator call)"}
    fault_keys = ["switches", "realloc_moved", "realloc_stay", "alloc", "free", "parallel_runs"]
    tiers = {"quick": {"runs": 10000, "budget_s": 60, "selftest_every": 50, "fresh_selftest": 8},
             "thorough": {"runs": 1000000, "budget_s": 800, "selftest_every": 300, "fresh_selftest": 16}}
    rule = ("one run = (1..50 grains incl. twins/near-duplicates/duplicates, 0..20000 peaks biased to 4096*k and "
            "4096*k+-1, tolerance, seeded grain order, route kernel|fight_over_peaks|assignlabels, team 1..32, strategy, "
            "interleaving); distinct = distinct (workload digest, order, team, schedule signature); non-trivial = at "
            "least one peak is claimed by >= 2 grains within tolerance or a team >= 2 ran; histories: earlier fights on the same indexer, grains moved between two assignlabels calls, assignment reached through refinepositions, label buffers starting at 0, grain names other than 0..n-1, non-finite peaks, dyadic exact ties, an earlier assignment with one geometry parameter at another value, refine() results kept across calls, per-grain counts / refineubis(scoreonly) / gof() twice after the assignment, g-vectors replaced on the indexer, another refinegrains object that loaded a parameter file first")
    components = {"real": enginea.COMPONENTS_REAL + ["score_and_assign, compute_gv (machine code)",
                                                       "ImageD11.indexing.indexer.fight_over_peaks, "
                                                       "ImageD11.refinegrains.refinegrains.assignlabels (unchanged Python)"],
                  "stub": enginea.COMPONENTS_STUB}
    assumptions = ["every call uses a distinct label, as both in-repo callers do",
                   "peaks whose best two grains agree to 1e-12 relative, or whose error is within 1e-12 of tol^2, are "
                   "exact ties and accepted with either outcome",
                   "assignlabels route: the reference g-vectors come from transform.compute_tth_eta_from_xyz + "
                   "compute_g_vectors; peaks whose decision margin is below 1e-9 are not compared"]

    def prepare(self, ctx):
        enginea.prepare_sim(ctx, import_imaged11=True)
        kernels.check_against_pyf()
        from ImageD11 import indexing, refinegrains, columnfile, transform, grain  # noqa
        self.mods = (indexing, refinegrains, columnfile, transform, grain)
        self.default_pars = dict(refinegrains.refinegrains.pars)      # the documented defaults, as imported

    def gen(self, rs, ctx):
        rnd = random.Random(rs)
        g = np.random.default_rng(rnd.getrandbits(48))
        route = rnd.choice(["kernel", "kernel", "kernel", "fight", "assign"])
        big = rnd.random() < (0.25 if ctx.tier == "quick" else 0.35)
        if big:
            ngr = rnd.choice([1, 2, 3])
            n = rnd.choice([4095, 4096, 4097, 8191, 8192, 8193, 9000] + ([12288, 16385, 20000] if ctx.tier == "thorough" else []))
        else:
            ngr = rnd.choice([1, 2, 2, 3, 4, 5, 8, 13, 25, 50])
            n = rnd.choice([0, 1, 2, 5, 17, 40, 100, 333])
        if route != "kernel":
            n = max(n, 1)  # the f2py wrapper refuses empty arrays: zero peaks exist at kernel level only
        if route == "assign":
            ngr = min(ngr, 6)
            n = min(n, 4200)
        ubis = make_grains(rnd, g, ngr)
        cfg = enginea.draw_cfg(rnd, max_team=32)
        order = list(range(ngr))
        rnd.shuffle(order)
        desc = {"entry": "score_and_assign/" + route, "route": route, "ubis": [u.tolist() for u in ubis],
                "tol": rnd.choice([0.01, 0.02, 0.05, 0.1, 0.25, 0.5]), "order": order, "cfg": cfg,
                "labels_base": rnd.choice([0, 0, 1, 10]),
                # what the label buffer holds on entry: -1 everywhere, or zeros as several callers in the repository start
                # (with labels numbered from 0 every peak then carries grain 0's label without being indexed by it)
                "init_label": rnd.choice([-1, -1, 0]), "fight_tol_at_construction": rnd.random() < 0.4,
                "via_saveindexing": rnd.choice([0, 0, 0, 0, 1, 1, 2]),
                "strided_drlv2": rnd.random() < 0.15}
        if route == "assign":
            # peaks on the detector; each grain gets a translation; UBIs are rebuilt from three of its own g-vectors
            desc["sc"] = g.uniform(0, 2048, n).tolist()
            desc["fc"] = g.uniform(0, 2048, n).tolist()
            desc["omega"] = g.uniform(-180, 180, n).tolist()
            # grain positions: anywhere, all at the origin, or sharing one or two coordinates (a single layer has the
            # same t_z for every grain; a column of sub-grains the same t_x, t_y)
            tr = [g.normal(0, 200, 3) * rnd.choice([0, 1, 1]) for _ in range(ngr)]
            share = rnd.choice([None, None, (2,), (0,), (0, 1), (1, 2)])
            if share is not None and ngr:
                ref_t = g.normal(0, 200, 3) * rnd.choice([0, 1])
                for t in tr:
                    if rnd.random() < 0.8:
                        for ax in share:
                            t[ax] = ref_t[ax]
            desc["translations"] = [t.tolist() for t in tr]
            desc["pars"] = {"wedge": rnd.choice([0.0, 2.5]), "chi": rnd.choice([0.0, -1.5]),
                            "omegasign": rnd.choice([1, -1]), "wavelength": rnd.choice([0.2, 0.4]),
                            "tilt_x": rnd.choice([0.0, 0.01]), "tilt_y": rnd.choice([0.0, -0.02]), "tilt_z": 0.005,
                            "distance": 150000.0, "y_center": 1000.0, "z_center": 1100.0, "y_size": 50.0, "z_size": 50.0,
                            "o11": 1, "o12": 0, "o21": 0, "o22": rnd.choice([1, -1])}
            if rnd.random() < 0.35:
                # some grains of the list carry no position of their own (no "#translation:" line): they sit at the
                # parameters' t_x, t_y, t_z, wherever the grains before them in the list are
                desc["pars"].update({"t_x": rnd.choice([0.0, 55.0]), "t_y": rnd.choice([0.0, -120.5]), "t_z": rnd.choice([0.0, 31.25])})
                desc["no_translation"] = [k for k in range(ngr) if rnd.random() < 0.4]
                for k in desc["no_translation"]:
                    desc["translations"][k] = [desc["pars"]["t_x"], desc["pars"]["t_y"], desc["pars"]["t_z"]]
            desc["tol"] = rnd.choice([0.1, 0.25, 0.4, 0.5])
            desc["basis_peaks"] = [[rnd.randrange(max(n, 1)) for _ in range(3)] for _ in range(ngr)]
            # the grains' names are the labels: 0..n-1, or what is left of a pruned / re-ordered grain list
            if rnd.random() < 0.5:
                desc["grain_names"] = rnd.sample(range(0, 3 * ngr + 4), ngr)
            # the grains move between two assignments (refinement, set_ubi), as in the makemap sequence
            # refine -> save -> assign again: the second assignment must use the grains as they are then
            desc["via_refinepositions"] = rnd.choice([0, 0, 0, 1, 3]) if (ngr and n >= 3) else 0
            desc["after_assign"] = rnd.choice([None, "refineubis", "gof", "both", "scoreonly"])
            desc["prior_object"] = rnd.random() < 0.25
            if rnd.random() < 0.4:
                # the geometry was something else when the object assigned before (a parameter file loaded later, a fitted
                # tilt): the assignment that counts is done with the parameters as they are then
                nm_ = rnd.choice(["tilt_x", "tilt_x", "tilt_y", "tilt_z", "distance", "y_center", "z_center", "wedge", "chi",
                                  "wavelength", "y_size", "omegasign", "o22"])
                desc["pars_history"] = [nm_, {"tilt_x": 0.03, "tilt_y": 0.02, "tilt_z": -0.02, "distance": 4000.0, "y_center": 9.0,
                                              "z_center": -7.0, "wedge": 1.5, "chi": -2.0, "wavelength": 0.01, "y_size": 5.0}.get(nm_, 0.0),
                                        rnd.choice(["set", "set", "dict", "update"])]
            if rnd.random() < 0.5:
                desc["assign_history"] = {"kind": rnd.choice(["perturbed", "perturbed", "other"]), "seed": rnd.getrandbits(32),
                                          "how": rnd.choice(["set_ubi", "set_ubi", "new_grain"])}
        else:
            gv = make_peaks(rnd, g, ubis, n)
            if n and route != "assign" and rnd.random() < 0.1:
                # exact arithmetic: UBI = 4 x signed permutations, g on a 1/32 grid, dyadic tolerance: errors that EQUAL tol^2
                # (or zero tolerance with ideal peaks) are decided by the documented strict comparison
                ubis = []
                for _ in range(ngr):
                    ubis.append(np.ascontiguousarray(4.0 * np.eye(3)[list(g.permutation(3))] * g.choice([-1.0, 1.0], 3)[:, None]))
                desc["ubis"] = [u.tolist() for u in ubis]
                gv = (g.integers(-6, 7, (n, 3)) + g.integers(-3, 4, (n, 3)) / 8.0) / 4.0
                desc["tol"] = rnd.choice([0.0, 1 / 8.0, 1 / 4.0, 3 / 8.0, 1 / 2.0])
                desc["dyadic"] = True
            if n and not desc.get("dyadic") and rnd.random() < 0.15:
                # peaks without a usable g-vector (failed spatial correction: NaN; division by zero: inf): no grain indexes them
                for _ in range(rnd.randint(1, 4)):
                    gv[rnd.randrange(n), rnd.randrange(3) if rnd.random() < 0.7 else slice(None)] = rnd.choice([float("nan"), float("inf"), float("-inf")])
            desc["gv"] = gv.tolist()
            if route == "fight":
                desc["gv_replaced"] = rnd.random() < 0.25
            if route == "fight" and rnd.random() < 0.5:
                # the same indexer object has competed before, with other grain lists and tolerances
                pre = []
                for _ in range(rnd.randint(1, 2)):
                    o2 = list(range(ngr))
                    rnd.shuffle(o2)
                    pre.append({"order": o2[:rnd.randint(1, ngr)] if rnd.random() < 0.4 else o2, "tol": rnd.choice([0.02, 0.1, 0.25, 0.5])})
                desc["fight_pre"] = pre
                if rnd.random() < 0.6:
                    desc["order"] = order[:rnd.randint(1, ngr)]    # grains were removed before the last call
        return desc

    def describe(self, desc):
        d = {k: desc[k] for k in ("route", "tol", "order", "cfg")}
        d["ngrains"] = len(desc["ubis"])
        d["npeaks"] = len(desc.get("gv", desc.get("sc", [])))
        d["first_ubi"] = desc["ubis"][0]
        return d

    # ------------------------------------------------------------------
    def execute(self, desc, ctx):
        route = desc["route"]
        if route == "kernel":
            return self.exec_kernel(desc, ctx)
        if route == "fight":
            return self.exec_fight(desc, ctx)
        return self.exec_assign(desc, ctx)

    def _finish(self, desc, E, tol, init, lab_idx, drl, rets_got, rets_model, st_list, viol, extra_digest=()):
        cfg = desc["cfg"]
        n = E.shape[1]
        if viol is None:
            mlab, mbest, amb = model_final(E, tol, init, exact=bool(desc.get("dyadic")))
            bad = (lab_idx != mlab) & ~amb
            if bad.any():
                k = int(np.argmax(bad))
                viol = {"class": "wrong-grain", "key": desc["entry"] + ":wrong-grain",
                        "detail": "peak %d carries grain #%d, best-fitting grain within tolerance is #%d (errors %s); "
                                  "%d peaks wrong; order %s team %s" %
                                  (k, lab_idx[k], mlab[k], np.round(E[:, k], 6).tolist()[:6], int(bad.sum()),
                                   desc["order"][:8], cfg["team"])}
            else:
                cmp = ~amb
                rel = np.abs(drl - mbest) > 1e-12 * np.maximum(np.abs(mbest), 1e-300)
                if (rel & cmp).any():
                    k = int(np.argmax(rel & cmp))
                    viol = {"class": "wrong-error", "key": desc["entry"] + ":wrong-error",
                            "detail": "peak %d stores error %.17g, minimum over grains is %.17g" % (k, drl[k], mbest[k])}
            if viol is None and rets_got is not None and not amb.any():
                if list(rets_got) != list(rets_model):
                    viol = {"class": "wrong-count", "key": desc["entry"] + ":wrong-count",
                            "detail": "per-call return values %s differ from the sequential model %s (order %s, team %s)" %
                                      (list(rets_got)[:10], list(rets_model)[:10], desc["order"][:10], cfg["team"])}
        meas = None
        for st in st_list:
            m = enginea.run_measures(st, cfg)
            if meas is None:
                meas = m
            else:
                for k in ("steps", "switches", "teams", "conflicts", "parallel_runs"):
                    meas[k] += m[k]
                for k2, v2 in m["team_delivered"].items():
                    meas["team_delivered"][k2] = meas["team_delivered"].get(k2, 0) + v2
        meas["route"] = {desc["route"]: 1}
        meas["earlier_fights_on_the_same_indexer"] = len(desc.get("fight_pre", []))
        meas["non_finite_gvector_rows"] = int((~np.isfinite(np.array(desc["gv"], float).reshape(-1, 3))).any(axis=1).sum()) if "gv" in desc else 0
        contested = int((((E < tol * tol) & (E < init)).sum(axis=0) >= 2).sum()) if E.size else 0
        meas["contested_peaks"] = contested
        meas["peaks_beyond_one_chunk"] = 1 if n > 4096 else 0
        par = any(int(k) > 1 for st in st_list for k in st["team_hist"])
        dig = enginea.sha([st["digest"] for st in st_list], lab_idx, drl, rets_got, *extra_digest)
        sig = "%s/%s/%s/%s" % (enginea.sha(E, tol), desc["order"], cfg["team"], [st["sched_sig"] for st in st_list][:3])
        return {"digest": dig, "sig": sig, "nontrivial": bool(contested or par), "viol": viol, "measures": meas}

    def exec_kernel(self, desc, ctx):
        sim = ctx.sim
        cfg = desc["cfg"]
        ubis = [np.array(u) for u in desc["ubis"]]
        gv = np.array(desc["gv"], float).reshape(-1, 3)
        n = len(gv)
        tol = desc["tol"]
        init = 1e6
        base = desc["labels_base"]
        drl = np.full(n, init)
        lab = np.full(n, desc.get("init_label", -1), np.int32)
        rets, sts = [], []
        viol = None
        for gi in desc["order"]:
            vals = {"ubi": ubis[gi], "gv": gv, "tol": tol, "drlv2": drl, "labels": lab, "label": base + gi, "ng": n}
            ret, arr, st = kernels.run_kernel(sim, "score_and_assign", vals,
                                              {"ubi": "in", "gv": "in", "drlv2": "io", "labels": "io"}, cfg,
                                              step_cap=400 * n + 200000, pct_est=max(50, 40 * n // max(1, cfg["team"])),
                                              track_conflicts=1)
            sts.append(st)
            v = enginea.viol_from_stats(st, "score_and_assign", kernels.region_names("score_and_assign"))
            if v is not None:
                viol = v
                break
            drl, lab = arr["drlv2"].copy(), arr["labels"].copy()
            rets.append(ret)
        E = np.array([errs(u, gv) for u in ubis]) if ubis else np.zeros((0, n))
        if viol is None and desc.get("strided_drlv2") and n and ubis:
            # the same competition through the f2py wrapper with the error array given as every second element of a longer
            # buffer: the wrapper declares it in/out, so it must refuse it or keep it in step with the labels
            from ImageD11 import cImageD11 as cmod
            enginea.apply_cfg(sim, cfg, strict=0, track_conflicts=0, pct_est=100, step_cap=2000000000)
            sim.begin_run()
            bufd = np.full(2 * n, init)
            dview = bufd[::2]
            lab2 = np.full(n, desc.get("init_label", -1), np.int32)
            accepted = True
            try:
                with contextlib.redirect_stdout(io.StringIO()):
                    for gi in desc["order"]:
                        cmod.score_and_assign(ubis[gi], gv, tol, dview, lab2, base + gi)
            except Exception:
                accepted = False
            if accepted and (not np.array_equal(lab2, lab) or not np.array_equal(dview, drl)):
                viol = {"class": "wrong-error", "key": desc["entry"] + ":strided-errors",
                        "detail": "score_and_assign accepted a strided error array but labels / stored errors differ from the call with a "
                                  "contiguous one (%d labels, %d errors differ)" % (int((lab2 != lab).sum()), int((dview != drl).sum()))}
        presented = (lab >= base) & (lab < base + len(ubis))
        lab_idx = np.where(presented, lab - base, -1)
        if viol is None and n and (~presented & (lab != -1) & (lab != desc.get("init_label", -1))).any():
            k = int(np.argmax(~presented & (lab != -1) & (lab != desc.get("init_label", -1))))
            viol = {"class": "label-not-a-grain", "key": desc["entry"] + ":label-not-a-grain",
                    "detail": "peak %d carries label %d: neither a label that was presented, nor -1, nor what the buffer held on entry" % (k, lab[k])}
        return self._finish(desc, E, tol, init, lab_idx, drl, rets, model_sequential(E, tol, init, desc["order"]), sts, viol)

    def exec_fight(self, desc, ctx):
        indexing = self.mods[0]
        sim = ctx.sim
        cfg = desc["cfg"]
        ubis = [np.array(u) for u in desc["ubis"]]
        gv = np.array(desc["gv"], float).reshape(-1, 3)
        n = len(gv)
        tol = desc["tol"]
        enginea.apply_cfg(sim, cfg, strict=0, track_conflicts=0, pct_est=max(50, 40 * n // max(1, cfg["team"])),
                          step_cap=2000000000)
        sim.begin_run()
        viol = None
        via_save = 0
        with contextlib.redirect_stdout(io.StringIO()):
            # the tolerance is set by plain attribute assignment after construction, as the library's own drivers do
            if desc.get("gv_replaced") and n:
                # the indexer was made for other g-vectors of as many peaks (another grain position); they are replaced by attribute
                # assignment before the competition, as the fitting drivers do
                g0_ = np.random.default_rng(n + 5).normal(size=(n, 3))
                ix = indexing.indexer(gv=g0_, hkl_tol=(tol if desc.get("fight_tol_at_construction", True) else 0.777))
                ix.gv = gv
            else:
                ix = indexing.indexer(gv=gv, hkl_tol=(tol if desc.get("fight_tol_at_construction", True) else 0.777))
            try:
                for pre in desc.get("fight_pre", []):
                    ix.ubis = [ubis[gi] for gi in pre["order"]]
                    ix.hkl_tol = pre["tol"]
                    ix.fight_over_peaks()
                ix.ubis = [ubis[gi].copy() for gi in desc["order"]]
                ix.hkl_tol = tol
                if desc.get("via_saveindexing") and n and np.isfinite(gv).all() and len(desc["order"]) <= 8:
                    # the competition as saveindexing runs it (followed by a per-grain refinement for the printed report):
                    # labels, errors and counts must be those of the grains the indexer holds afterwards
                    ix.ra = np.zeros(n, np.int32)
                    ix.xp = ix.yp = ix.eta = ix.omega = ix.tth = np.zeros(n)
                    ix.wavelength = 0.05
                    try:
                        ix.saveindexing(os.path.join(ctx.scratch, "c07_%d.idx" % os.getpid()))
                        if desc.get("via_saveindexing") == 2:
                            # the grains are polished in place (what score_and_refine does to its argument) and the
                            # indexing is saved again: the second competition is for the matrices as they are now
                            gp = np.random.default_rng(len(gv) + 17)
                            for u_ in ix.ubis:
                                u_[:] = u_ @ (np.eye(3) + gp.normal(0, 4e-3, (3, 3)))
                            ix.saveindexing(os.path.join(ctx.scratch, "c07_%d.idx" % os.getpid()))
                    except Exception:
                        pass    # the printed report (cell parameters, U, B of odd synthetic matrices) is not this property's
                                # business; the competition it starts with has run
                    ubis = list(ubis)
                    for j_, gi_ in enumerate(desc["order"]):
                        ubis[gi_] = np.array(ix.ubis[j_], float)
                    via_save = 1
                else:
                    ix.fight_over_peaks()
            except Exception as e:
                viol = {"class": "raises", "key": desc["entry"] + ":raises",
                        "detail": "fight_over_peaks raised %s: %s (%d grains, %d peaks, order %s)" %
                                  (type(e).__name__, e, len(ubis), n, desc["order"][:8])}
        st = sim.stats()
        if viol is not None:
            meas = enginea.run_measures(st, cfg)
            meas["route"] = {"fight": 1}
            return {"digest": enginea.sha(st["digest"], viol["class"]), "sig": enginea.sha(gv, tol, desc["order"]),
                    "nontrivial": True, "viol": viol, "measures": meas}
        lab = np.asarray(ix.ga)
        # labels index the presented order
        order = desc["order"]
        if n and (lab >= len(order)).any():
            k = int(np.argmax(lab >= len(order)))
            viol = {"class": "label-not-a-grain", "key": desc["entry"] + ":label-not-a-grain",
                    "detail": "peak %d carries label %d, the list presented has %d grains (%d earlier calls on this indexer)" %
                              (k, int(lab[k]), len(order), len(desc.get("fight_pre", [])))}
            lab = np.where(lab >= len(order), -1, lab)
        lab_idx = np.array([order[l] if l >= 0 else -1 for l in lab], int) if n else np.zeros(0, int)
        gas = np.asarray(ix.gas)
        want = np.bincount(lab[lab >= 0], minlength=len(order)) if n else np.zeros(len(order), int)
        if viol is None and (len(gas) != len(order) or (gas != want).any()):
            viol = {"class": "gas-not-histogram", "key": desc["entry"] + ":gas-not-histogram",
                    "detail": "per-grain counts %s are not the histogram of the labels %s" % (gas.tolist()[:10], want.tolist()[:10])}
        E = np.array([errs(u, gv) for u in ubis]) if ubis else np.zeros((0, n))
        for gi in range(len(ubis)):
            if gi not in order:
                E[gi] = np.inf      # not presented in the last call
        return self._finish(desc, E, tol, 2.0, lab_idx, np.asarray(ix.drlv2), None, None, [st], viol, (gas,))

    def exec_assign(self, desc, ctx):
        indexing, refinegrains, columnfile, transform, grain = self.mods
        sim = ctx.sim
        cfg = desc["cfg"]
        sc, fc, om = np.array(desc["sc"]), np.array(desc["fc"]), np.array(desc["omega"])
        n = len(sc)
        tol = desc["tol"]
        pars = desc["pars"]
        trans = [np.array(t) for t in desc["translations"]]
        ngr = len(trans)

        def ref_gv(t):
            p = dict(pars)
            p["t_x"], p["t_y"], p["t_z"] = t
            xyz = transform.compute_xyz_lab([sc, fc], **p)
            tth, eta = transform.compute_tth_eta_from_xyz(xyz, om * p["omegasign"], **p)
            return transform.compute_g_vectors(tth, eta, om * p["omegasign"], p["wavelength"], p["wedge"], p["chi"]).T

        gvs = [np.ascontiguousarray(ref_gv(t)) if n else np.zeros((0, 3)) for t in trans]
        ubis = []
        for k in range(ngr):
            u = None
            if n >= 3:
                B = gvs[k][desc["basis_peaks"][k]].T  # columns = g-vectors of three peaks -> hkl 100,010,001
                if abs(np.linalg.det(B)) > 1e-6:
                    u = np.linalg.inv(B)
            u = u if u is not None else np.array(desc["ubis"][k])
            if np.linalg.det(u) < 0:
                u = u * np.array([[-1.0], [1.0], [1.0]])  # grain objects insist on a right-handed UBI
            ubis.append(np.ascontiguousarray(u))
        order = desc["order"]
        enginea.apply_cfg(sim, cfg, strict=0, track_conflicts=0, pct_est=max(50, 60 * n // max(1, cfg["team"])),
                          step_cap=2000000000)
        sim.begin_run()
        refine_failed = False
        with contextlib.redirect_stdout(io.StringIO()):
            prior = desc.get("prior_object")
            if prior:
                # another refinegrains object, alive in the same process, loaded a parameter file of another experiment before
                # this one was made; this one sets only what differs from the documented defaults
                pf_ = os.path.join(ctx.scratch, "c07_other_%d.par" % os.getpid())
                with open(pf_, "w") as f_:
                    f_.write("wedge 7.5\nchi -4.25\nomegasign -1\nwavelength 0.71\ntilt_x 0.11\ntilt_y -0.07\ntilt_z 0.05\n"
                             "distance 98000.0\ny_center 512.5\nz_center 480.25\ny_size 75.0\nz_size 75.0\n"
                             "o11 -1\no12 0\no21 0\no22 -1\nt_x 40.0\nt_y -30.0\nt_z 20.0\n")
                rg0 = refinegrains.refinegrains(tolerance=0.05, OmFloat=False)
                rg0.loadparameters(pf_)
            rg = refinegrains.refinegrains(tolerance=tol, OmFloat=False)
            for kk, vv in pars.items():
                if prior and kk in self.default_pars and self.default_pars[kk] == vv:
                    continue
                rg.parameterobj.parameters[kk] = vv
            cf = columnfile.colfile_from_dict({"sc": sc.copy(), "fc": fc.copy(), "omega": om.copy(),
                                               "drlv2": np.ones(n), "labels": np.zeros(n) - 1,
                                               "sum_intensity": np.ones(n)})
            rg.scannames = ["s"]
            rg.scantitles["s"] = cf.titles
            rg.scandata["s"] = cf
            names = desc.get("grain_names") or list(range(ngr))
            rg.grainnames = list(names)
            # grains are presented in the seeded order: the j-th name is grain order[j]
            ah = desc.get("assign_history")
            ga = np.random.default_rng(ah["seed"]) if ah else None
            for j, gi in enumerate(order):
                u0 = ubis[gi]
                if ah:
                    # what was read from the ubi file; the grains are refined to ubis[gi] before the last assignment
                    u0 = u0 @ (np.eye(3) + ga.normal(0, 5e-3, (3, 3))) if ah["kind"] == "perturbed" else \
                        np.diag(ga.uniform(3, 8, 3)) @ rot(ga).T
                    if np.linalg.det(u0) < 0:
                        u0 = u0 * np.array([[-1.0], [1.0], [1.0]])
                rg.ubisread[names[j]] = np.ascontiguousarray(u0)
                rg.translationsread[names[j]] = None if gi in desc.get("no_translation", []) else trans[gi]
            rg.generate_grains()
            ph = desc.get("pars_history")
            if ph:
                true_v = rg.parameterobj.parameters[ph[0]]
                other_v = -true_v if ph[0] in ("omegasign", "o22") else true_v + ph[1]

                def put_(v_):
                    if ph[2] == "set":
                        rg.parameterobj.set(ph[0], v_)
                    elif ph[2] == "dict":
                        rg.parameterobj.parameters[ph[0]] = v_
                    else:
                        rg.parameterobj.parameters.update({ph[0]: v_})
                put_(other_v)
                rg.assignlabels(quiet=True)
                put_(true_v)
            if desc.get("via_refinepositions") and not ah:
                # the makemap story: positions are refined right after loading; the competing assignment this starts with is
                # done with the user's tolerance, and its labels and errors are what the columns hold afterwards
                try:
                    rg.refinepositions(quiet=True, maxiters=desc["via_refinepositions"])
                except Exception:
                    # the simplex / least-squares refinement that follows the assignment may fail on these tiny synthetic
                    # grains (that is not this property's business); the assignment it started with is in the columns
                    refine_failed = True
            else:
                rg.assignlabels(quiet=True)
            if ah:
                for j, gi in enumerate(order):
                    if ah["how"] == "set_ubi":
                        rg.grains[(names[j], "s")].set_ubi(ubis[gi])
                    else:
                        rg.grains[(names[j], "s")] = grain.grain(ubis[gi], translation=trans[gi])
                rg.assignlabels(quiet=True)
        refine_layout_fail = None
        if ngr and n >= 3 and not refine_failed and not desc.get("via_refinepositions"):
            # refinegrains.refine (the caller of score_and_refine in this module) takes the grain's matrix in whatever memory
            # layout it has: a Fortran-ordered copy must give what the C-ordered one gives
            with contextlib.redirect_stdout(io.StringIO()):
                try:
                    g0 = rg.grains[(names[0], "s")]
                    rg.compute_gv(g0)
                    mC = np.ascontiguousarray(g0.ubi)
                    rC_obj = None
                    try:
                        rC_obj = rg.refine(mC)
                        rC = np.array(rC_obj)
                    except Exception:
                        rC = None
                    if rC is not None:
                        try:
                            rF = np.array(rg.refine(np.asfortranarray(mC)))
                            if not np.allclose(rF, rC, rtol=1e-9, atol=1e-12, equal_nan=True):
                                refine_layout_fail = "refine() of a Fortran-ordered matrix differs from refine() of the same matrix in C order"
                        except Exception as e_:
                            refine_layout_fail = "refine() raises %s for a Fortran-ordered matrix it refines in C order: %s" % (type(e_).__name__, str(e_)[:80])
                        if refine_layout_fail is None and len(order) > 1:
                            # a result the caller kept stays what it was when refine() is called for the next grain
                            try:
                                g1 = rg.grains[(names[1], "s")]
                                rg.compute_gv(g1)
                                rg.refine(np.ascontiguousarray(g1.ubi))
                            except Exception:
                                pass
                            if not np.array_equal(np.asarray(rC_obj), rC, equal_nan=True):
                                refine_layout_fail = "the matrix refine() returned for one grain changed when refine() was called for the next grain"
                except Exception:
                    pass
        lab = np.asarray(rg.scandata["s"].labels).astype(int).copy()
        drl = np.asarray(rg.scandata["s"].drlv2).copy()
        later_fail = None
        if ngr and n >= 3 and not refine_failed:
            # what follows an assignment in the makemap story: the per-grain peak counts are the histogram of the labels, also after the
            # matrices were refined with the assignment kept; and the cost function of the parameter fit gives the same value for the
            # same arguments each time it is asked
            with contextlib.redirect_stdout(io.StringIO()):
                def counts_():
                    for j_, nm_ in enumerate(names):
                        g_ = rg.grains.get((nm_, "s"))
                        if g_ is not None and hasattr(g_, "npks") and int(g_.npks) != int((lab == nm_).sum()):
                            return "grain %s: npks is %d, %d peaks carry its label" % (nm_, int(g_.npks), int((lab == nm_).sum()))
                    return None
                later_fail = counts_()
                if later_fail is None and desc.get("after_assign") == "scoreonly":
                    # scoring the grains (with omega allowed to float within the step, the makemap default) changes no grain
                    before_ = {k_: np.array(g_.ubi, copy=True) for k_, g_ in rg.grains.items()}
                    of_ = rg.OMEGA_FLOAT
                    try:
                        rg.OMEGA_FLOAT = True
                        with np.errstate(all="ignore"):
                            rg.refineubis(quiet=True, scoreonly=True)
                    except Exception:
                        pass
                    finally:
                        rg.OMEGA_FLOAT = of_
                    for k_, g_ in rg.grains.items():
                        if np.asarray(g_.ubi).tobytes() != before_[k_].tobytes():
                            later_fail = "refineubis(scoreonly=True) changed the matrix of grain %s" % (k_[0],)
                            break
                if later_fail is None and desc.get("after_assign") in ("refineubis", "both"):
                    try:
                        rg.refineubis(quiet=True)
                        later_fail = counts_()
                        if later_fail:
                            later_fail = "after refineubis(), " + later_fail
                    except Exception:
                        pass
                if later_fail is None and desc.get("after_assign") in ("gof", "both"):
                    try:
                        rg.parameterobj.varylist = []
                        rg.grains_to_refine = list(rg.grains.keys())
                        v1_ = rg.gof([])
                        v2_ = rg.gof([])
                        if np.isfinite(v1_) and np.isfinite(v2_) and abs(v1_ - v2_) > 1e-9 * max(1.0, abs(v1_)):
                            later_fail = "gof() with the same arguments gives %.12g, then %.12g" % (v1_, v2_)
                    except Exception:
                        pass
        st = sim.stats()
        tpg = np.asarray(rg.scandata["s"].tth_per_grain, float) if "tth_per_grain" in rg.scandata["s"].titles else None
        epg = np.asarray(rg.scandata["s"].eta_per_grain, float) if "eta_per_grain" in rg.scandata["s"].titles else None
        byname = {nm: order[j] for j, nm in enumerate(names)}
        lab_idx = np.array([byname.get(l, -2) if l >= 0 else -1 for l in lab], int) if n else np.zeros(0, int)
        E = np.array([errs(ubis[k], gvs[k]) for k in range(ngr)]) if ngr else np.zeros((0, n))
        # reference g-vectors differ from the compiled ones at the 1e-13 level: widen the ambiguity zone
        viol = None
        mlab, mbest, amb = model_final(E, tol, 1.0)
        if ngr > 1:
            srt = np.sort(np.where((E < tol * tol) & (E < 1.0), E, np.inf), axis=0)
            with np.errstate(invalid="ignore"):
                amb |= np.isfinite(srt[0]) & (np.abs(srt[1] - srt[0]) < 1e-9)
        amb |= (np.abs(E - tol * tol) < 1e-9).any(axis=0) if ngr else False
        bad = (lab_idx != mlab) & ~amb
        if bad.any():
            k = int(np.argmax(bad))
            viol = {"class": "wrong-grain", "key": desc["entry"] + ":wrong-grain",
                    "detail": "assignlabels: peak %d carries grain #%d, best is #%d (errors %s), %d peaks wrong, order %s" %
                              (k, lab_idx[k], mlab[k], np.round(E[:, k], 6).tolist()[:6], int(bad.sum()), order)}
        elif ((np.abs(drl - mbest) > 1e-9) & ~amb).any():
            k = int(np.argmax((np.abs(drl - mbest) > 1e-9) & ~amb))
            viol = {"class": "wrong-error", "key": desc["entry"] + ":wrong-error",
                    "detail": "assignlabels: peak %d stores error %.12g, minimum over grains is %.12g" % (k, drl[k], mbest[k])}
        if viol is None and later_fail:
            viol = {"class": "history-dependent", "key": desc["entry"] + ":after-assignment", "detail": later_fail}
        if viol is None and refine_layout_fail:
            viol = {"class": "raises" if " raises " in refine_layout_fail else "refine-result-differs", "key": desc["entry"] + ":refine-layout",
                    "detail": refine_layout_fail}
        if viol is None and tpg is not None and n and ngr:
            # the per-grain two-theta / eta columns: for a peak assigned to a grain, the angles seen from that grain's position
            for j_, gi_ in enumerate(order):
                sel_ = lab == names[j_]
                if not sel_.any():
                    continue
                p_ = dict(pars)
                p_["t_x"], p_["t_y"], p_["t_z"] = trans[gi_]
                xyz_ = transform.compute_xyz_lab([sc, fc], **p_)
                t_, e_ = transform.compute_tth_eta_from_xyz(xyz_, om * p_["omegasign"], **p_)
                dt_ = np.abs(tpg[sel_] - t_[sel_])
                de_ = np.abs(((epg[sel_] - e_[sel_]) + 180.0) % 360.0 - 180.0)
                okc = (np.abs(np.abs(e_[sel_]) - 180) > 0.01) & (t_[sel_] > 0.01)
                if okc.any() and (dt_[okc].max() > 2e-3 or de_[okc].max() > 2e-2):
                    viol = {"class": "wrong-error", "key": desc["entry"] + ":per-grain-angles",
                            "detail": "assignlabels: tth_per_grain / eta_per_grain of the peaks assigned to grain %s differ from the angles "
                                      "seen from that grain's position by up to %.4f / %.4f degrees" % (names[j_], dt_[okc].max(), de_[okc].max())}
                    break
        meas = enginea.run_measures(st, cfg)
        meas["route"] = {"assign": 1}
        meas["assignments_after_the_grains_moved"] = 1 if desc.get("assign_history") else 0
        meas["refineubis/gof_after_the_assignment"] = {str(desc.get("after_assign")): 1}
        meas["another_object_loaded_parameters_before"] = 1 if desc.get("prior_object") else 0
        meas["assignments_after_a_parameter_changed"] = 1 if desc.get("pars_history") else 0
        meas["grain_names_not_0..n-1"] = 1 if desc.get("grain_names") else 0
        meas["assignment_via_refinepositions"] = 1 if (desc.get("via_refinepositions") and not desc.get("assign_history")) else 0
        contested = int((((E < tol * tol) & (E < 1.0)).sum(axis=0) >= 2).sum()) if E.size else 0
        meas["contested_peaks"] = contested
        meas["peaks_beyond_one_chunk"] = 1 if n > 4096 else 0
        par = any(int(k) > 1 for k in st["team_hist"])
        return {"digest": enginea.sha(st["digest"], lab, drl), "sig": "%s/%s/%s/%x" % (enginea.sha(E, tol), order, cfg["team"], st["sched_sig"]),
                "nontrivial": bool(contested or par), "viol": viol, "measures": meas}


    def minimise(self, desc, viol, ctx):
        """fewer grains, then fewer peaks, while the same violation class persists (the schedule stays seed-determined)"""
        import time as _time
        cls = viol["class"]
        t_end = _time.time() + 90

        def fails(d):
            if _time.time() > t_end:
                return False
            try:
                r = self.execute(d, ctx)
            except Exception:
                return False  # e.g. the f2py wrapper refuses an empty peak list
            return r["viol"] is not None and r["viol"]["class"] == cls
        if not fails(desc):
            return desc
        d = dict(desc)

        def drop_grain(dd, g):
            n = dict(dd)
            n["ubis"] = [u for k, u in enumerate(dd["ubis"]) if k != g]
            n["order"] = [o - (1 if o > g else 0) for o in dd["order"] if o != g]
            for key in ("translations", "basis_peaks"):
                if key in dd:
                    n[key] = [x for k, x in enumerate(dd[key]) if k != g]
            return n
        g = len(d["ubis"]) - 1
        while g >= 0 and len(d["ubis"]) > 1:
            cand = drop_grain(d, g)
            if fails(cand):
                d = cand
            g -= 1
            g = min(g, len(d["ubis"]) - 1)
        if "gv" in d:
            def keep(dd, idx):
                n = dict(dd)
                n["gv"] = [dd["gv"][i] for i in idx]
                return n
            floor = 0 if d["route"] == "kernel" else 1
            idx = enginea.ddmin(list(range(len(d["gv"]))), lambda sub: len(sub) >= floor and fails(keep(d, sub)),
                                max_tests=60, max_seconds=60)
            if fails(keep(d, idx)):
                d = keep(d, idx)
        return d


CHECK = C07()
if __name__ == "__main__":
    sys.exit(runner.main(CHECK))
