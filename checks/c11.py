#!/venv/bin/python
"""
C11 - threshold labelling yields exactly the connected components.

Engine A (simomp), strict mode.  One run = one image and threshold pushed through the dense kernel
(8- and 4-connectivity), the sparse kernel and the sparse "splat" kernel, each under a seeded team /
interleaving (the relabel loop of the dense kernel is parallel), garbage in labels / Z, a seed-chosen
initial disjoint-set capacity (so the realloc growth path runs on small images) and a realloc that
moves and poisons the old block.  Oracle: scipy.ndimage.label (independent) for the partition;
labels must be exactly 1..n, n the return value; the three variants must induce the same partition.
"""
from __future__ import print_function
import os, sys, random
sys.path.insert(0, os.path.dirname(os.path.dirname(os.path.abspath(__file__))))
import numpy as np
import scipy.ndimage
from common import runner, enginea, kernels
from common.enginea import simlib

S8 = np.ones((3, 3), int)
S4 = np.array([[0, 1, 0], [1, 1, 1], [0, 1, 0]])


def canon(a):
    m = {}
    return [m.setdefault(int(x), len(m)) if x else -1 for x in np.asarray(a).ravel()]


def make_image(rnd, g, ns, nf):
    kind = rnd.choice(["rand", "rand", "checker", "spiral", "comb", "full", "empty", "corners", "blobs", "diag", "isolated", "ladder"])
    im = np.zeros((ns, nf), np.float32)
    if kind == "ladder":
        # parallel vertical lines joined pairwise by rungs from right to left (a chain of label unions, each made without
        # looking the earlier ones up), a free stroke at the left, everything tied together by a bar at the bottom
        nl = max(2, min((nf - 1) // 2, (ns - 3) // 2, rnd.randint(3, 8)))
        if 2 * nl + 1 <= nf and 2 * nl + 3 <= ns:
            cols = [2 * (c + 1) for c in range(nl)]
            last = cols[-1]
            for c in cols:
                im[:2 * (nl - 1) + 1, c] = 10
            im[:2 * nl + 3, 0] = 10
            im[:2 * nl + 3, last] = 10
            row = 2
            for c in cols[::-1][:-1]:
                im[row, c - 1] = 10
                row += 2
            im[2 * nl + 2, :last + 1] = 10
            if rnd.random() < 0.3:
                im = im[:, ::-1].copy()
        else:
            kind = "rand"
    if kind == "rand":
        im = (g.random((ns, nf)) < rnd.choice([0.1, 0.3, 0.5, 0.7, 0.9])).astype(np.float32) * 10
    elif kind == "checker":
        im = ((np.indices((ns, nf)).sum(0) + rnd.randint(0, 1)) % 2).astype(np.float32) * 10
    elif kind == "isolated":
        im[::2, ::2] = 10
    elif kind == "spiral":
        # rectangular spiral: forces many unions of provisional labels
        t, b, l, r = 0, ns - 1, 0, nf - 1
        while t <= b and l <= r:
            im[t, l:r + 1] = 10
            im[t:b + 1, r] = 10
            if t < b:
                im[b, l + 1:r + 1] = 10
            if l < r - 1 and t + 1 < b:
                im[t + 2:b + 1, l + 1] = 10
            t, b, l, r = t + 2, b - 2, l + 2, r - 2
    elif kind == "comb":
        im[-1, :] = 10
        im[:, ::2] = 10
        if rnd.random() < 0.5:
            im = im[::-1].copy()
    elif kind == "full":
        im[:] = 10
    elif kind == "corners":
        for (i, j) in [(0, 0), (0, nf - 1), (ns - 1, 0), (ns - 1, nf - 1)]:
            if rnd.random() < 0.8:
                im[i, j] = 10
    elif kind == "blobs":
        yy, xx = np.mgrid[0:ns, 0:nf]
        for _ in range(rnd.randint(1, 6)):
            cy, cx, s = g.uniform(0, ns), g.uniform(0, nf), g.uniform(0.7, 3)
            im += (30 * np.exp(-((yy - cy) ** 2 + (xx - cx) ** 2) / (2 * s * s))).astype(np.float32)
    elif kind == "diag":
        for k in range(min(ns, nf)):
            im[k, k] = 10
            if rnd.random() < 0.5 and k + 2 < nf:
                im[k, k + 2] = 10
    # graded values so that thresholds equal to a pixel value matter
    im = im * (1 + (g.integers(0, 3, (ns, nf)) * 0.5)).astype(np.float32)
    return kind, im.astype(np.float32)


class C11(object):
    id = "C11"
    engine = "simomp"
    time_keys = {"steps": "scheduler steps (one per instrumented access, GOMP entry or allocator call)"}
    fault_keys = ["switches", "realloc_moved", "realloc_stay", "alloc", "free", "parallel_runs", "dset_grew(realloc)"]
    tiers = {"quick": {"runs": 14000, "budget_s": 60, "selftest_every": 40, "fresh_selftest": 10},
             "thorough": {"runs": 6000000, "budget_s": 800, "selftest_every": 300, "fresh_selftest": 20}}
    rule = ("one run = (image 2x2..64x64 incl. checkerboards/spirals/combs/isolated grids, threshold possibly equal to "
            "a pixel value) through dense(8), dense(4), sparse and splat kernels under (team, strategy, interleaving, "
            "garbage, initial disjoint-set capacity 4..16384, moving/staying realloc); distinct = distinct (image "
            "digest, threshold, capacity, realloc mode, team); non-trivial = at least one above-threshold pixel; also: a second simulated Python thread labelling another frame, SparseScan.cplabel scans, a labelimage object labelling a series with empty/dark/tie frames, a from_data_cut / threshold / sparse_connected_pixels story incl. sibling frames made with one header")
    components = {"real": enginea.COMPONENTS_REAL + ["connectedpixels, sparse_connectedpixels, sparse_connectedpixels_splat, "
                                                       "dset_* (blobs.c)"],
                  "stub": enginea.COMPONENTS_STUB + ["initial disjoint-set capacity (call-site wrapper of dset_initialise)"]}
    assumptions = ["scipy.ndimage.label is the reference for the partition",
                   "splat: lbl is handed in zeroed, as its only in-repo caller does",
                   "images are at least 2x2"]

    def prepare(self, ctx):
        enginea.prepare_sim(ctx, import_imaged11=True)
        kernels.check_against_pyf()
        from ImageD11 import sparseframe
        import h5py
        self.sf, self.h5py = sparseframe, h5py

    def gen(self, rs, ctx):
        rnd = random.Random(rs)
        g = np.random.default_rng(rnd.getrandbits(48))
        if rnd.random() < 0.06:
            # several frames through sparseframe.SparseScan.cplabel and sparse_connected_pixels (unchanged Python)
            ns, nf = rnd.choice([3, 5, 8, 12]), rnd.choice([3, 4, 7, 13])
            frames = []
            for _ in range(rnd.randint(2, 5)):
                kind, im = make_image(rnd, g, ns, nf)
                if not (im > 0).any():
                    im[rnd.randrange(ns), rnd.randrange(nf)] = 7.0
                frames.append(im.ravel().tolist())
            return {"entry": "SparseScan.cplabel", "ns": ns, "nf": nf, "kind": "scan", "frames": frames,
                    "threshold": rnd.choice([0.0, 5.0, 12.0]), "countall": rnd.random() < 0.5,
                    "window": ([rnd.randint(1, 3), rnd.randint(1, 4), rnd.random() < 0.5] if rnd.random() < 0.4 else None),
                    "relabel_first": rnd.random() < 0.3,
                    "cfg": enginea.draw_cfg(rnd, max_team=4), "gstyle": 0, "image": [], "cut": 0.0}
        if rnd.random() < 0.04:
            # sparseframe story: a frame cut at t_lo (carrying that threshold as metadata) is labelled with the default
            # threshold, a brighter sub-frame is derived from it and labelled with its own threshold, then the first frame
            # is labelled again
            ns, nf = rnd.choice([4, 6, 9, 12]), rnd.choice([4, 5, 8, 13])
            kind, im = make_image(rnd, g, ns, nf)
            t_lo = rnd.choice([0.0, 1.0, 5.0])
            return {"entry": "sparse_connected_pixels/story", "ns": ns, "nf": nf, "kind": "story", "image": np.abs(im).ravel().tolist(),
                    "threshold": t_lo, "t_hi": t_lo + rnd.choice([2.0, 6.0, 11.0]), "explicit_zero": rnd.random() < 0.3, "sibling": rnd.choice([None, None, "common", "default"]),
                    # an unsorted frame of a detector-sized image (more than 65536 pixels) is sorted, then labelled
                    "big_sort": rnd.choice([None, None, None, [300, 300], [512, 384], [260, 270]]), "bseed": rnd.getrandbits(32),
                    "cfg": enginea.draw_cfg(rnd, max_team=4), "gstyle": 0, "cut": 0.0}
        if rnd.random() < 0.05:
            # one labelimage object labels a series of frames (its two label images are swapped from frame to frame); some
            # frames have nothing above the threshold: all zero, dark only, or their maximum exactly at the threshold
            ns, nf = rnd.choice([3, 5, 8, 12]), rnd.choice([3, 4, 7, 13])
            th = rnd.choice([0.0, 5.0, 12.0])
            frames = []
            for _ in range(rnd.randint(2, 6)):
                kind, im = make_image(rnd, g, ns, nf)
                u = rnd.random()
                if u < 0.15:
                    im[:] = 0
                elif u < 0.3:
                    im = np.minimum(im, np.float32(th))        # maximum exactly at the threshold (or below)
                elif u < 0.4:
                    im[:] = th - 1
                frames.append(im.ravel().tolist())
            return {"entry": "labelimage.labelpeaks", "ns": ns, "nf": nf, "kind": "labelimage", "frames": frames, "threshold": th,
                    "merge": rnd.random() < 0.8, "reuse_buffer": rnd.random() < 0.3, "cfg": enginea.draw_cfg(rnd, max_team=4), "gstyle": 0, "image": [], "cut": 0.0}
        r = rnd.random()
        if r < 0.006:
            ns, nf = rnd.choice([(260, 260), (258, 300), (366, 366)])  # > 16384 (resp. > 32768: two growths) provisional labels at native capacity
        elif ctx.tier == "thorough" and r < 0.1:
            ns, nf = rnd.randint(2, 64), rnd.randint(2, 64)
        else:
            ns, nf = rnd.choice([2, 2, 3, 4, 5, 6, 8, 11, 16, 24]), rnd.choice([2, 3, 3, 4, 5, 7, 9, 13, 17])
        if ns >= 200:
            kind, im = "isolated-native", np.zeros((ns, nf), np.float32)
            im[::2, ::2] = 10
            im[rnd.randrange(ns), :] = 10  # and one long union
        else:
            kind, im = make_image(rnd, g, ns, nf)
        if rnd.random() < 0.15:
            # not-a-number pixels (masked or bad pixels in processed data) are not strictly above any threshold
            for _ in range(rnd.randint(1, 3)):
                im[rnd.randrange(ns), rnd.randrange(nf)] = np.nan
        vals = sorted(set(np.round(im[np.isfinite(im)].ravel(), 3).tolist())) or [0.0]
        th = rnd.choice([0.0, 0.0, 5.0, 12.0, -1.0, 1e6] + vals[:3])
        cfg = enginea.draw_cfg(rnd, max_team=16)
        if ns >= 200:
            cfg["dset_cap"] = 0
            cfg["strategy"] = rnd.choice(["rtc", "rr"])
            cfg["quantum"] = 50
        d = {"entry": "connectedpixels*", "ns": ns, "nf": nf, "kind": kind, "image": im.ravel().tolist(),
             "threshold": float(th), "cut": rnd.choice([-2.0, float(th), float(th)]), "cfg": cfg,
             "gstyle": rnd.choice([0, 1])}
        if ns < 200 and rnd.random() < 0.15:
            # another Python thread labels another frame at the same time (the sparse kernels run without the GIL)
            ns2, nf2 = rnd.choice([2, 3, 5, 8]), rnd.choice([2, 4, 7, 9])
            k2, im2 = make_image(rnd, g, ns2, nf2)
            d["concurrent"] = {"ns": ns2, "nf": nf2, "image": im2.ravel().tolist(), "threshold": rnd.choice([0.0, 5.0, float(th)]),
                               "ccfg": enginea.draw_cfg(rnd, max_team=4)}
        return d

    def describe(self, desc):
        if desc["entry"] == "SparseScan.cplabel":
            return {k: desc[k] for k in ("entry", "ns", "nf", "threshold", "countall", "cfg")}
        d = {k: desc[k] for k in ("ns", "nf", "kind", "threshold", "cut", "cfg")}
        d["image_first_row"] = desc["image"][:desc["nf"]]
        return d

    def exec_story(self, desc, ctx):
        import io, contextlib
        sim = ctx.sim
        sf = self.sf
        cfg, t_lo, t_hi = desc["cfg"], desc["threshold"], desc["t_hi"]
        ns, nf = desc["ns"], desc["nf"]
        im = np.array(desc["image"], np.float32).reshape(ns, nf)
        if not (im > t_lo).any():
            im[0, 0] = t_lo + 20
        enginea.apply_cfg(sim, cfg, strict=0, track_conflicts=0, step_cap=50000000)
        sim.begin_run()
        viol = None

        def check(frame, thr, n, what):
            sel = np.zeros((ns, nf), bool)
            sel[frame.row, frame.col] = True
            dense = np.zeros((ns, nf), np.float32)
            dense[frame.row, frame.col] = frame.pixels["intensity"]
            ref, nref = scipy.ndimage.label(dense > np.float32(thr), S8)
            got = np.asarray(frame.pixels["connectedpixels"])
            want = ref[frame.row, frame.col]
            if n != nref or ((got != 0) != (want != 0)).any() or canon(got) != canon(want):
                return {"class": "partition-differs", "key": "sparse_connected_pixels:partition-differs",
                        "detail": "%s: %d labels, the frame has %d components above %g (or another partition)" % (what, n, nref, thr)}
            return None
        with contextlib.redirect_stdout(io.StringIO()):
            sibling = desc.get("sibling")
            if sibling == "common":
                # two frames are made with one common header dictionary, then each is given its own threshold
                hdr_ = {"instrument": "x"}
                low = sf.from_data_cut(im, t_lo, hdr_)
                sib_ = sf.from_data_cut(im, t_lo, hdr_)
                low.meta["intensity"]["threshold"] = t_lo
                if sib_ is not None:
                    sib_.meta["intensity"]["threshold"] = t_hi
            elif sibling == "default":
                low = sf.from_data_cut(im, t_lo)
                sib_ = sf.from_data_cut(im, t_lo)
                low.meta["intensity"]["threshold"] = t_lo
                if sib_ is not None:
                    sib_.meta["intensity"]["threshold"] = t_hi
            else:
                low = sf.from_data_cut(im, t_lo, {"threshold": t_lo})
            n1 = sf.sparse_connected_pixels(low)
            viol = check(low, t_lo, n1, "frame cut at %g, labelled with its default threshold" % t_lo)
            hi = low.threshold(t_hi) if (np.asarray(low.pixels["intensity"]) > t_hi).any() else None   # empty frames are refused
            first_labels = np.array(low.pixels["connectedpixels"], copy=True)
            if viol is None and hi is not None and hi.nnz:
                hi.meta["intensity"]["threshold"] = t_hi
                n2 = sf.sparse_connected_pixels(hi)
                viol = check(hi, t_hi, n2, "sub-frame above %g derived from it" % t_hi)
                if viol is None and not np.array_equal(np.asarray(low.pixels["connectedpixels"]), first_labels):
                    viol = {"class": "partition-differs", "key": "sparse_connected_pixels:partition-differs",
                            "detail": "labelling another frame changed the labels the first frame already held"}
                if viol is None and low.meta["connectedpixels"].get("nlabel") != n1:
                    viol = {"class": "count-differs", "key": "sparse_connected_pixels:count-differs",
                            "detail": "labelling another frame changed the label count the first frame advertises"}
            if viol is None:
                n3 = sf.sparse_connected_pixels(low)
                viol = check(low, t_lo, n3, "the first frame labelled again after a sub-frame was derived and labelled")
            if viol is None and desc.get("big_sort"):
                bs0, bs1 = desc["big_sort"]
                gb = np.random.default_rng(desc["bseed"])
                big = np.zeros((bs0, bs1), np.float32)
                for _ in range(40):
                    r0, c0 = int(gb.integers(0, bs0 - 4)), int(gb.integers(0, bs1 - 4))
                    big[r0:r0 + int(gb.integers(1, 5)), c0:c0 + int(gb.integers(1, 5))] = gb.integers(20, 90)
                rb, cb = np.nonzero(big > 0)
                pm = gb.permutation(len(rb))
                fb = sf.sparse_frame(rb[pm].astype(np.uint16), cb[pm].astype(np.uint16), (bs0, bs1),
                                     pixels={"intensity": big[rb, cb][pm].copy()})
                fb.sort()
                nb = sf.sparse_connected_pixels(fb, threshold=10.0)
                refb, nrefb = scipy.ndimage.label(big > 10, S8)
                gotb = np.asarray(fb.pixels["connectedpixels"])
                if nb != nrefb or canon(gotb) != canon(refb[fb.row, fb.col]) or \
                        not np.array_equal(np.asarray(fb.pixels["intensity"]), big[fb.row, fb.col]):
                    viol = {"class": "partition-differs", "key": "sparse_connected_pixels:partition-differs",
                            "detail": "an unsorted frame of a %dx%d image, sorted with sort() and then labelled: %d labels, the image has %d "
                                      "components (or another partition / values detached from their pixels)" % (bs0, bs1, nb, nrefb)}
            if viol is None and desc.get("explicit_zero"):
                n4 = sf.sparse_connected_pixels(low, threshold=0)
                viol = check(low, 0.0, n4, "the first frame with an explicit threshold of 0")
        st = sim.stats()
        meas = enginea.run_measures(st, cfg)
        meas["image_kind"] = {"story": 1}
        meas["dset_capacity"] = {cfg.get("dset_cap", 0) or 16384: 1}
        meas["dset_grew(realloc)"] = 0
        meas["concurrent_frame_pairs"] = 0
        return {"digest": enginea.sha(st["digest"], np.asarray(low.pixels["connectedpixels"])), "sig": enginea.sha(desc["image"], t_lo, t_hi),
                "nontrivial": True, "viol": viol, "measures": meas}

    def exec_labelimage(self, desc, ctx):
        import io, contextlib
        from ImageD11 import labelimage
        sim = ctx.sim
        cfg, th = desc["cfg"], desc["threshold"]
        ns, nf = desc["ns"], desc["nf"]
        ims = [np.array(f, np.float32).reshape(ns, nf) for f in desc["frames"]]
        enginea.apply_cfg(sim, cfg, strict=0, track_conflicts=0, step_cap=50000000)
        sim.begin_run()
        viol = None
        digs = []
        with contextlib.redirect_stdout(io.StringIO()):
            lab = labelimage.labelimage((ns, nf), fileout=io.StringIO(), sptfile=io.StringIO())
            buf = np.zeros((ns, nf), np.float32)
            for k, im in enumerate(ims):
                if desc.get("reuse_buffer"):
                    buf[:] = im                    # the caller reads every frame into the same array
                    lab.labelpeaks(buf, th)
                else:
                    lab.peaksearch(im, th, float(k))
                ref, nref = scipy.ndimage.label(im > np.float32(th), S8)
                got = np.array(lab.blim)
                digs.append(enginea.sha(got, lab.npk))
                if lab.npk != nref:
                    viol = {"class": "count-differs", "key": "labelimage.labelpeaks:count-differs",
                            "detail": "frame %d of %d on one labelimage: npk %d, the frame has %d components" % (k, len(ims), lab.npk, nref)}
                    break
                if ((got != 0) != (ref != 0)).any() or canon(got.ravel()) != canon(ref.ravel()):
                    viol = {"class": "partition-differs", "key": "labelimage.labelpeaks:partition-differs",
                            "detail": "frame %d of %d on one labelimage (%d components, maximum %g, threshold %g): the label image does not "
                                      "hold the components of this frame (%d pixels labelled, %d above threshold)" %
                                      (k, len(ims), nref, float(im.max()), th, int((got != 0).sum()), int((ref != 0).sum()))}
                    break
                if desc.get("merge", True) and not desc.get("reuse_buffer"):
                    lab.mergelast()
            if viol is None and not desc.get("reuse_buffer"):
                lab.finalise()
        st = sim.stats()
        meas = enginea.run_measures(st, cfg)
        meas["image_kind"] = {"labelimage": 1}
        meas["dset_capacity"] = {cfg.get("dset_cap", 0) or 16384: 1}
        meas["dset_grew(realloc)"] = 1 if (meas["realloc_moved"] + meas["realloc_stay"]) > 0 else 0
        meas["concurrent_frame_pairs"] = 0
        return {"digest": enginea.sha(st["digest"], digs), "sig": enginea.sha(desc["frames"], th), "nontrivial": True,
                "viol": viol, "measures": meas}

    def exec_scan(self, desc, ctx):
        import io, contextlib
        sim = ctx.sim
        cfg, th = desc["cfg"], desc["threshold"]
        ns, nf = desc["ns"], desc["nf"]
        ims = [np.array(f, np.float32).reshape(ns, nf) for f in desc["frames"]]
        p = os.path.join(ctx.scratch, "c11_scan_%d.h5" % os.getpid())
        if os.path.exists(p):
            os.remove(p)
        rows, cols, vals, nnz = [], [], [], []
        for im in ims:
            r, c = np.nonzero(im > 0)
            rows.append(r.astype(np.uint16)); cols.append(c.astype(np.uint16)); vals.append(im[im > 0]); nnz.append(len(r))
        with self.h5py.File(p, "w") as h:
            grp = h.create_group("1.1")
            grp.attrs["nframes"], grp.attrs["shape0"], grp.attrs["shape1"] = len(ims), ns, nf
            grp["row"], grp["col"] = np.concatenate(rows), np.concatenate(cols)
            grp["intensity"] = np.concatenate(vals).astype(np.float32)
            grp["nnz"] = np.array(nnz, np.int32)
        enginea.apply_cfg(sim, cfg, strict=0, track_conflicts=0, step_cap=50000000)
        sim.begin_run()
        viol = None
        win = desc.get("window")      # only a window of the frames in the file is loaded: [start, start+n)
        if win and win[0] < len(ims) and any(nnz[:win[0]]):
            w0, w1 = win[0], min(len(ims), win[0] + win[1])
        else:
            win, w0, w1 = None, 0, len(ims)
        relabel_fail = None
        with contextlib.redirect_stdout(io.StringIO()):
            if win is None:
                sc = self.sf.SparseScan(p, "1.1")
            elif win[2]:
                sc = self.sf.SparseScan(p, "1.1::[%d:%d]" % (w0, w1))
            else:
                sc = self.sf.SparseScan(p, "1.1", start=w0, n=w1 - w0)
            ims, nnz = ims[w0:w1], nnz[w0:w1]
            if desc.get("relabel_first"):
                # the scan was labelled before with another threshold and its frames were looked at: the labelling that
                # follows, and the frames handed out after it, are those of the new threshold
                sc.cplabel(threshold=th + 7.0, countall=not desc["countall"])
                for q in range(len(ims)):
                    sc.getframe(q)
            sc.cplabel(threshold=th, countall=desc["countall"])
            fr0 = sc.getframe(0)
            if desc.get("relabel_first"):
                for q in range(len(ims)):
                    fq = sc.getframe(q)
                    if fq is not None and "labels" in fq.pixels and \
                            not np.array_equal(np.asarray(fq.pixels["labels"]), np.asarray(sc.labels)[sc.ipt[q]:sc.ipt[q + 1]]):
                        relabel_fail = q
                        break
            n0 = self.sf.sparse_connected_pixels(fr0, threshold=th) if fr0 is not None else 0
        st = sim.stats()
        if relabel_fail is not None:
            viol = {"class": "partition-differs", "key": "SparseScan.cplabel:partition-differs",
                    "detail": "after labelling the scan again with another threshold, getframe(%d) still hands out the labels of the "
                              "earlier labelling" % relabel_fail}
        off, pos = 0, 0
        lab_all = np.asarray(sc.labels)
        for k, im in enumerate(ims):
            ref, nref = scipy.ndimage.label(im > np.float32(th), S8)
            n = nnz[k]
            got = lab_all[pos:pos + n]
            want = ref[im > 0]
            if sc.nlabels[k] != nref:
                viol = {"class": "count-differs", "key": "SparseScan.cplabel:count-differs",
                        "detail": "frame %d of %d: %d labels, the frame has %d components" % (k, len(ims), sc.nlabels[k], nref)}
                break
            if ((got != 0) != (want != 0)).any() or canon(got) != canon(want):
                viol = {"class": "partition-differs", "key": "SparseScan.cplabel:partition-differs",
                        "detail": "frame %d of %d: labels do not induce the components of the frame" % (k, len(ims))}
                break
            nz = got[got != 0]
            lo = off + 1 if desc["countall"] else 1
            if len(nz) and (nz.min() != lo or nz.max() != lo + nref - 1):
                viol = {"class": "labels-not-1..n", "key": "SparseScan.cplabel:labels-not-1..n",
                        "detail": "frame %d: labels span %d..%d, expected %d..%d" % (k, nz.min(), nz.max(), lo, lo + nref - 1)}
                break
            if k == 0 and fr0 is not None:
                l0 = fr0.pixels["connectedpixels"]
                if n0 != nref or canon(l0) != canon(want):
                    viol = {"class": "partition-differs", "key": "sparse_connected_pixels:partition-differs",
                            "detail": "sparse_connected_pixels on frame 0 differs from the components"}
                    break
            pos += n
            if desc["countall"]:
                off += nref
        meas = enginea.run_measures(st, cfg)
        meas["image_kind"] = {"scan": 1}
        meas["dset_capacity"] = {cfg.get("dset_cap", 0) or 16384: 1}
        meas["dset_grew(realloc)"] = 1 if (meas["realloc_moved"] + meas["realloc_stay"]) > 0 else 0
        return {"digest": enginea.sha(st["digest"], lab_all), "sig": enginea.sha(desc["frames"], th), "nontrivial": True,
                "viol": viol, "measures": meas}

    def execute(self, desc, ctx):
        if desc["entry"] == "SparseScan.cplabel":
            return self.exec_scan(desc, ctx)
        if desc["entry"] == "labelimage.labelpeaks":
            return self.exec_labelimage(desc, ctx)
        if desc["entry"] == "sparse_connected_pixels/story":
            return self.exec_story(desc, ctx)
        sim = ctx.sim
        ns, nf, th, cfg = desc["ns"], desc["nf"], desc["threshold"], desc["cfg"]
        im = np.array(desc["image"], np.float32).reshape(ns, nf)
        above = im > np.float32(th)
        ref8, n8 = scipy.ndimage.label(above, S8)
        ref4, n4 = scipy.ndimage.label(above, S4)
        viol = None
        digs = []
        meas = None
        cap = 60000000
        results = {}

        def check(tag, entry, lab, ret, ref, nref, sel=None):
            """lab: labels produced for the pixels selected by sel (flat indices) or the full image"""
            labf = lab.ravel()
            reff = ref.ravel() if sel is None else ref.ravel()[sel]
            abv = above.ravel() if sel is None else above.ravel()[sel]
            if ((labf != 0) != abv).any():
                k = int(np.argmax((labf != 0) != abv))
                return {"class": "background-wrong", "key": entry + ":background-wrong",
                        "detail": "%s: pixel #%d has label %d but is %sabove the threshold %g" %
                                  (tag, k, labf[k], "" if abv[k] else "not ", th)}
            used = np.unique(labf[labf != 0])
            nhere = len(np.unique(reff[reff != 0]))
            if sel is None and ret != nref:
                return {"class": "count-differs", "key": entry + ":count-differs",
                        "detail": "%s: returned %d, image has %d components" % (tag, ret, nref)}
            if len(used) != ret or (len(used) and (used[0] != 1 or used[-1] != ret)):
                return {"class": "labels-not-1..n", "key": entry + ":labels-not-1..n",
                        "detail": "%s: returned n=%d but labels used are %s..%s (%d distinct; %d components)" %
                                  (tag, ret, used[:1], used[-1:], len(used), nhere)}
            if canon(labf) != canon(reff):
                return {"class": "partition-differs", "key": entry + ":partition-differs",
                        "detail": "%s: two pixels share a label without being connected, or are connected without "
                                  "sharing a label (n=%d, reference %d)" % (tag, ret, nhere)}
            return None

        # ---- dense, 8 and 4 connectivity
        for con8, ref, nref in ((1, ref8, n8), (0, ref4, n4)):
            # "eight-connected" is any non-zero flag (people write con8=8)
            c8 = con8 if con8 == 0 else [1, 1, 8, 2, -2, 4][int(desc["cfg"]["garbage_seed"]) % 6]
            vals = {"data": im, "labels": [ns, nf], "threshold": th, "verbose": 0, "con8": c8, "ns": ns, "nf": nf}
            ret, arr, st = kernels.run_kernel(sim, "connectedpixels", vals, {"data": "in", "labels": "out"}, cfg,
                                              gstyle=desc["gstyle"], step_cap=cap, pct_est=4 * ns * nf,
                                              track_conflicts=1, replay=desc.get("replay"))
            if meas is None:
                meas = enginea.run_measures(st, cfg)
            else:
                for k in ("steps", "switches", "teams", "conflicts", "alloc", "realloc_moved", "realloc_stay", "free"):
                    meas[k] += enginea.run_measures(st, cfg)[k]
            digs.append((st["digest"], ret))
            v = enginea.viol_from_stats(st, "connectedpixels", kernels.region_names("connectedpixels"))
            if v is None:
                v = check("dense con8=%d" % con8, "connectedpixels", arr["labels"], ret, ref, nref)
            if v is not None and viol is None:
                viol = v
            results["dense%d" % con8] = arr["labels"].copy()
            digs.append(enginea.sha(arr["labels"]))
        # ---- sparse and splat on the stored pixels (image > cut, cut <= threshold)
        stored = (im > np.float32(min(desc["cut"], th))) | np.isnan(im)
        if stored.any():
            r, c = np.nonzero(stored)
            sel = np.flatnonzero(stored.ravel())
            v32 = im[stored]
            n = len(r)
            vals = {"v": v32, "i": r.astype(np.uint16), "j": c.astype(np.uint16), "nnz": n, "threshold": th, "labels": [n]}
            ret, arr, st = kernels.run_kernel(sim, "sparse_connectedpixels", vals,
                                              {"v": "in", "i": "in", "j": "in", "labels": "out"}, cfg,
                                              gstyle=desc["gstyle"], step_cap=cap, track_conflicts=0)
            for k in ("steps", "alloc", "realloc_moved", "realloc_stay", "free"):
                meas[k] += enginea.run_measures(st, cfg)[k]
            digs.append((st["digest"], ret, enginea.sha(arr["labels"])))
            v = enginea.viol_from_stats(st, "sparse_connectedpixels", kernels.region_names("sparse_connectedpixels"))
            if v is None:
                v = check("sparse", "sparse_connectedpixels", arr["labels"], ret, ref8, n8, sel)
                if v is None and ret != n8:
                    v = {"class": "count-differs", "key": "sparse_connectedpixels:count-differs",
                         "detail": "sparse returned %d, image has %d components" % (ret, n8)}
            if v is not None and viol is None:
                viol = v
            sp_lab = arr["labels"].copy()
            ni, nj = ns, nf
            vals = {"v": v32, "i": r.astype(np.uint16), "j": c.astype(np.uint16), "nnz": n, "th": th,
                    "lbl": np.zeros(n, np.int32), "Z": [(ni + 2) * (nj + 2)], "ni": ni, "nj": nj}
            ret, arr, st = kernels.run_kernel(sim, "sparse_connectedpixels_splat", vals,
                                              {"v": "in", "i": "in", "j": "in", "lbl": "io", "Z": "work"}, cfg,
                                              gstyle=desc["gstyle"], step_cap=cap, track_conflicts=0)
            for k in ("steps", "alloc", "realloc_moved", "realloc_stay", "free"):
                meas[k] += enginea.run_measures(st, cfg)[k]
            digs.append((st["digest"], ret, enginea.sha(arr["lbl"])))
            v = enginea.viol_from_stats(st, "sparse_connectedpixels_splat", kernels.region_names("sparse_connectedpixels_splat"))
            if v is None:
                v = check("splat", "sparse_connectedpixels_splat", arr["lbl"], ret, ref8, n8, sel)
                if v is None and ret != n8:
                    v = {"class": "count-differs", "key": "sparse_connectedpixels_splat:count-differs",
                         "detail": "splat returned %d, image has %d components" % (ret, n8)}
            if v is None and viol is None:
                d8 = results["dense1"].ravel()[sel]
                if not (canon(d8) == canon(sp_lab) == canon(arr["lbl"])):
                    v = {"class": "variants-disagree", "key": "connectedpixels:variants-disagree",
                         "detail": "dense, sparse and splat do not induce the same partition of the same pixels"}
            if v is not None and viol is None:
                viol = v
        nconc = 0
        if viol is None and desc.get("concurrent") and stored.any():
            c2 = desc["concurrent"]
            im2 = np.array(c2["image"], np.float32).reshape(c2["ns"], c2["nf"])
            st2 = im2 > np.float32(c2["threshold"])
            if st2.any():
                def spec(kern, image, sel_mask, thr):
                    rr, cc = np.nonzero(sel_mask)
                    m = len(rr)
                    if kern == "sparse_connectedpixels":
                        return (kern, {"v": image[sel_mask], "i": rr.astype(np.uint16), "j": cc.astype(np.uint16), "nnz": m,
                                       "threshold": thr, "labels": [m]}, {"v": "in", "i": "in", "j": "in", "labels": "out"}, "labels")
                    return (kern, {"v": image[sel_mask], "i": rr.astype(np.uint16), "j": cc.astype(np.uint16), "nnz": m, "th": thr,
                                   "lbl": np.zeros(m, np.int32), "Z": [(image.shape[0] + 2) * (image.shape[1] + 2)],
                                   "ni": image.shape[0], "nj": image.shape[1]},
                            {"v": "in", "i": "in", "j": "in", "lbl": "io", "Z": "work"}, "lbl")
                for kern in ("sparse_connectedpixels", "sparse_connectedpixels_splat"):
                    specs = [spec(kern, im, stored, th), spec(kern, im2, st2, c2["threshold"])]
                    solo = []
                    for kn, vals, roles, outn in specs:
                        r_, a_, s_ = kernels.run_kernel(sim, kn, vals, roles, dict(cfg, team=1), gstyle=desc["gstyle"], step_cap=cap,
                                                        track_conflicts=0)
                        solo.append((r_, a_[outn].copy()))
                    outs, stc = kernels.run_concurrent(sim, [(kn, vals, roles) for kn, vals, roles, outn in specs],
                                                       dict(c2["ccfg"], dset_cap=cfg.get("dset_cap", 0)), gstyle=desc["gstyle"],
                                                       pct_est=max(50, 30 * int(stored.sum() + st2.sum())))
                    nconc += 1
                    v = enginea.viol_from_stats(stc, kern, {})
                    if v is not None:
                        v["key"] = kern + ":concurrent:" + v["class"]
                        viol = v
                        break
                    for q, (r_, arrs) in enumerate(outs):
                        if r_ != solo[q][0] or arrs[specs[q][3]].tobytes() != solo[q][1].tobytes():
                            viol = {"class": "not-reentrant", "key": kern + ":not-reentrant",
                                    "detail": "two Python threads label two different frames with %s at the same time: caller %d gets "
                                              "n=%s and other labels than when it calls alone (n=%s)" % (kern, q, r_, solo[q][0])}
                            break
                    if viol is not None:
                        break
        meas["concurrent_frame_pairs"] = nconc
        meas["image_kind"] = {desc["kind"]: 1}
        meas["dset_capacity"] = {cfg.get("dset_cap", 0) or 16384: 1}
        meas["dset_grew(realloc)"] = 1 if (meas["realloc_moved"] + meas["realloc_stay"]) > 0 else 0
        wd = enginea.sha(im, th)
        return {"digest": enginea.sha(*digs),
                "sig": "%s/%s/%s/%s" % (wd, cfg.get("dset_cap"), cfg.get("realloc_mode"), cfg["team"]),
                "nontrivial": bool(above.any()), "viol": viol, "measures": meas}


    def minimise(self, desc, viol, ctx):
        cls = viol["class"]
        if desc["entry"] in ("SparseScan.cplabel", "labelimage.labelpeaks", "sparse_connected_pixels/story"):
            return desc

        def fails(d):
            try:
                r = self.execute(d, ctx)
            except Exception:
                return False
            return r["viol"] is not None and r["viol"]["class"] == cls
        if not fails(desc):
            return desc
        d = enginea.shrink_image_desc(desc, fails)
        # a team of one and the simplest strategy if the failure does not need a schedule
        for simpler in ({"team": 1, "strategy": "rtc"}, {"strategy": "rtc"}):
            d2 = dict(d)
            d2["cfg"] = dict(d["cfg"], **simpler)
            if fails(d2):
                d = d2
                break
        return d


CHECK = C11()
if __name__ == "__main__":
    sys.exit(runner.main(CHECK))
