#!/venv/bin/python
"""
C12 - peak properties and frame-to-frame merging conserve pixels and intensity.

Tier 1 (this file, engines C + A): frame HISTORIES through ImageD11.labelimage on the instrumented module.
labelimage carries the current and the previous frame's label image and property table from call to call and
bloboverlaps rewrites both; the property is about the history of peaksearch/mergelast/finalise calls.  One run =
one generated 3D scene (blobs that grow, shrink, split, join, two blobs linked only through the previous or the
next frame, empty frames, border blobs, zero and negative omega steps) fed frame by frame, with the
connectedpixels relabel loop under a seeded team schedule, garbage in the simulated heap, a seed-chosen initial
disjoint-set capacity and a moving realloc.  Oracle: independent 3D labelling (scipy.ndimage.label with the
in-plane-8 / same-pixel-across-frames structure); rows of the .flt output <-> components one to one; pixel
count, sum I, sum I^2, centroids in s, f, omega, maximum pixel and its position, bounding box per component.

Tier 2 (checks/c12.py imports pysched when present): the threaded peaksearch pipeline, see DESIGN.md.
"""
from __future__ import print_function
import os, sys, random, io, contextlib
sys.path.insert(0, os.path.dirname(os.path.dirname(os.path.abspath(__file__))))
import numpy as np
import scipy.ndimage
from common import runner, enginea

STRUCT = np.zeros((3, 3, 3), int)
STRUCT[1, :, :] = 1
STRUCT[0, 1, 1] = STRUCT[2, 1, 1] = 1

COLS = ["sc", "fc", "omega", "Number_of_pixels", "avg_intensity", "s_raw", "f_raw", "sigs", "sigf", "covsf", "sigo", "covso",
        "covfo", "sum_intensity", "sum_intensity^2", "IMax_int", "IMax_s", "IMax_f", "IMax_o", "Min_s", "Max_s", "Min_f",
        "Max_f", "Min_o", "Max_o", "dety", "detz", "onfirst", "onlast", "spot3d_id"]


def make_scene(rnd, g, nfr, ns, nf):
    M = np.zeros((nfr, ns, nf), bool)
    kind = rnd.choice(["blobs", "blobs", "crafted", "noise", "mixed"])
    zz, yy, xx = np.mgrid[0:nfr, 0:ns, 0:nf]
    if kind in ("blobs", "mixed"):
        for _ in range(rnd.randint(1, 8)):
            c = (g.uniform(-0.5, nfr), g.uniform(-0.5, ns), g.uniform(-0.5, nf))
            r = (g.uniform(0.4, 2.5), g.uniform(0.5, 3.5), g.uniform(0.5, 3.5))
            M |= ((zz - c[0]) / r[0]) ** 2 + ((yy - c[1]) / r[1]) ** 2 + ((xx - c[2]) / r[2]) ** 2 <= 1
    if kind in ("noise", "mixed"):
        M |= g.random(M.shape) < rnd.choice([0.03, 0.1, 0.25])
    if kind == "crafted" or rnd.random() < 0.3:
        # two blobs on one frame linked only through the previous / the next frame; forks; L shapes
        for _ in range(rnd.randint(1, 3)):
            k = rnd.randrange(nfr)
            y0, x0 = rnd.randrange(ns), rnd.randrange(max(1, nf - 4))
            ln = rnd.randint(3, max(3, min(6, nf - x0)))
            kk = k + rnd.choice([-1, 1])
            if 0 <= kk < nfr:
                M[kk, y0, x0:x0 + ln] = True            # a bar on the neighbouring frame
                M[k, y0, x0] = True                      # two dots at its ends on this frame
                M[k, y0, min(nf - 1, x0 + ln - 1)] = True
            if rnd.random() < 0.5 and y0 + 2 < ns and 0 <= kk < nfr:
                M[kk, y0:y0 + 3, x0] = True              # L shape ...
                M[k, y0 + 2, x0] = True                  # ... forking into a column and a dot
                M[k, y0, min(nf - 1, x0 + 2)] = True
    for _ in range(rnd.choice([0, 0, 1, 2])):
        M[rnd.randrange(nfr)] = False                    # empty frames
    if rnd.random() < 0.2:
        M[:, 0, :] |= g.random((nfr, nf)) < 0.3          # blobs on the image border
        M[:, :, -1] |= g.random((nfr, ns)) < 0.3
    return kind, M


class C12(object):
    id = "C12"
    engine = "histsim+simomp"
    tiers = {"quick": {"runs": 3000, "budget_s": 60, "selftest_every": 50, "fresh_selftest": 8},
             "thorough": {"runs": 600000, "budget_s": 800, "selftest_every": 300, "fresh_selftest": 16}}
    rule = ("one run = one frame history (1..40 frames of 4x4..32x32) through labelimage.peaksearch / output2dpeaks / "
            "mergelast / finalise on the instrumented module (team, strategy, heap garbage, disjoint-set capacity, "
            "realloc mode drawn per run); distinct = distinct (scene digest, threshold, omega steps, capacity, team); "
            "non-trivial = at least one component spans two or more frames")
    components = {"real": enginea.COMPONENTS_REAL + ["connectedpixels, blobproperties, bloboverlaps, blob_moments, dset_*, "
                                                       "add_pixel, merge, compute_moments (machine code)",
                                                       "ImageD11.labelimage.labelimage (unchanged Python), blobcorrector.perfect"],
                  "stub": enginea.COMPONENTS_STUB + ["output streams (io.StringIO, a seam labelimage already has)"]}
    assumptions = ["pixel intensities are distinct positive integers above the threshold (so the maximum pixel identifies "
                   "its component and sums are exact), omega values are float32-representable",
                   "the 3D reference structure is 8-connectivity in plane and the same pixel on adjacent frames",
                   "onfirst/onlast are not checked beyond being 0/1 (they flag output batches, not peaks)"]

    def prepare(self, ctx):
        enginea.prepare_sim(ctx, import_imaged11=True)
        from ImageD11 import labelimage
        self.li = labelimage

    def gen(self, rs, ctx):
        rnd = random.Random(rs)
        big = ctx.tier == "thorough" and rnd.random() < 0.1
        nfr = rnd.choice([1, 2, 2, 3, 3, 4, 5, 6, 8, 12]) if not big else rnd.randint(13, 40)
        ns, nf = rnd.choice([4, 5, 6, 8, 12, 16]), rnd.choice([4, 5, 7, 9, 12, 17])
        if big:
            ns, nf = rnd.randint(4, 32), rnd.randint(4, 32)
        cfg = enginea.draw_cfg(rnd, max_team=16)
        ostep = rnd.choice([1.0, 0.25, -0.5, 0.0, 2.5])
        return {"entry": "labelimage-history", "nfr": nfr, "ns": ns, "nf": nf, "wseed": rnd.getrandbits(48),
                "threshold": rnd.choice([0.0, 5.0, 100.0]), "omega0": rnd.choice([0.0, -10.0, 90.5]), "ostep": ostep,
                "write2d": rnd.random() < 0.4, "cfg": cfg}

    def describe(self, desc):
        return {k: desc[k] for k in ("nfr", "ns", "nf", "wseed", "threshold", "omega0", "ostep", "write2d", "cfg")}

    def scene(self, desc):
        rnd = random.Random(desc["wseed"])
        g = np.random.default_rng(desc["wseed"])
        nfr, ns, nf = desc["nfr"], desc["ns"], desc["nf"]
        kind, M = make_scene(rnd, g, nfr, ns, nf)
        thr = desc["threshold"]
        nv = int(M.sum())
        vol = g.integers(0, int(thr) + 1, M.shape).astype(np.float32)       # background at or below the threshold
        vol[M] = thr + 1 + g.permutation(nv)                                  # distinct intensities above it
        omegas = (desc["omega0"] + desc["ostep"] * np.arange(nfr)).astype(np.float32)
        return kind, M, vol, omegas

    def execute(self, desc, ctx):
        sim = ctx.sim
        cfg = desc["cfg"]
        kind, M, vol, omegas = self.scene(desc)
        nfr, ns, nf = M.shape
        thr = desc["threshold"]
        enginea.apply_cfg(sim, cfg, strict=0, track_conflicts=0, pct_est=max(30, 6 * ns * nf // cfg["team"]), step_cap=4000000000)
        sim.begin_run()
        out, spt = io.StringIO(), io.StringIO()
        viol = None
        try:
            with contextlib.redirect_stdout(io.StringIO()):
                lab = self.li.labelimage((ns, nf), fileout=out, sptfile=spt)
                for k in range(nfr):
                    lab.peaksearch(vol[k], thr, float(omegas[k]))
                    if desc["write2d"] and lab.npk > 0:
                        lab.output2dpeaks(spt)
                    lab.mergelast()
                lab.finalise()
        except Exception as e:
            viol = {"class": "raises", "key": "labelimage:raises", "detail": "%s: %s" % (type(e).__name__, e)}
        st = sim.stats()
        ref, ncomp = scipy.ndimage.label(M, STRUCT)
        rows = []
        if viol is None:
            for line in out.getvalue().splitlines():
                if line.startswith("#") or not line.strip():
                    continue
                rows.append([float(x) for x in line.split()])
            viol = self.compare(rows, ref, ncomp, vol, omegas, M)
        multi = 0
        if ncomp:
            fr = [np.unique(np.nonzero(ref == c + 1)[0]).size for c in range(min(ncomp, 50))]
            multi = sum(1 for x in fr if x > 1)
        meas = enginea.run_measures(st, cfg)
        meas["scene_kind"] = {kind: 1}
        meas["frames"] = nfr
        meas["components"] = ncomp
        meas["components_spanning_frames"] = multi
        meas["empty_frames"] = int((M.reshape(nfr, -1).sum(axis=1) == 0).sum())
        return {"digest": enginea.sha(st["digest"], out.getvalue()),
                "sig": "%s/%s/%s/%s/%s" % (enginea.sha(M, vol), thr, desc["ostep"], cfg.get("dset_cap"), cfg["team"]),
                "nontrivial": multi > 0, "viol": viol, "measures": meas}

    def compare(self, rows, ref, ncomp, vol, omegas, M):
        def V(cls, detail):
            return {"class": cls, "key": "labelimage:" + cls, "detail": detail}
        if len(rows) != ncomp:
            tot_px = sum(r[3] for r in rows)
            return V("peak-count", "%d peaks written, the scene has %d connected components (pixels written %d, in scene %d)" %
                     (len(rows), ncomp, tot_px, int(M.sum())))
        # the maximum pixel identifies the component (intensities are distinct)
        byint = {}
        idx = np.argwhere(M)
        for (k, i, j) in idx:
            byint[float(vol[k, i, j])] = (k, i, j)
        seen = set()
        ids = []
        for r in rows:
            d = dict(zip(COLS, r))
            ids.append(int(d["spot3d_id"]))
            pos = byint.get(d["IMax_int"])
            if pos is None:
                return V("max-pixel", "peak reports maximum intensity %r which is no above-threshold pixel of the scene" % d["IMax_int"])
            c = int(ref[pos])
            if c in seen:
                return V("duplicate-peak", "two written peaks belong to the same connected component (#%d)" % c)
            seen.add(c)
            vox = np.argwhere(ref == c)
            I = vol[ref == c].astype(float)
            ks, ss, fs = vox[:, 0], vox[:, 1].astype(float), vox[:, 2].astype(float)
            om = omegas[ks].astype(float)
            # the component's own maximum
            km = int(np.argmax(I))
            want = {"Number_of_pixels": len(I), "sum_intensity": I.sum(), "sum_intensity^2": (I * I).sum(),
                    "s_raw": (ss * I).sum() / I.sum(), "f_raw": (fs * I).sum() / I.sum(), "omega": (om * I).sum() / I.sum(),
                    "sc": (ss * I).sum() / I.sum(), "fc": (fs * I).sum() / I.sum(),
                    "avg_intensity": I.sum() / len(I),
                    "IMax_int": I[km], "IMax_s": ss[km], "IMax_f": fs[km], "IMax_o": om[km],
                    "Min_s": ss.min(), "Max_s": ss.max(), "Min_f": fs.min(), "Max_f": fs.max(),
                    "Min_o": om.min(), "Max_o": om.max()}
            for name, w in want.items():
                lim = 5.1e-5 + 1e-9 * abs(w)
                if name in ("Number_of_pixels", "IMax_s", "IMax_f", "Min_s", "Max_s", "Min_f", "Max_f"):
                    lim = 0.0
                if not abs(d[name] - w) <= lim:
                    return V("property-differs", "component #%d (%d pixels over frames %s): %s written as %r, the component has %r" %
                             (c, len(I), sorted(set(ks.tolist())), name, d[name], float(w)))
            if d["onfirst"] not in (0.0, 1.0) or d["onlast"] not in (0.0, 1.0):
                return V("flags", "onfirst/onlast not 0/1")
        if sorted(ids) != list(range(len(rows))) or ids != sorted(ids):
            return V("spot3d_id", "spot3d_id values %s are not 0..n-1 in order" % ids[:10])
        return None


CHECK = C12()
if __name__ == "__main__":
    sys.exit(runner.main(CHECK))
