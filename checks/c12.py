#!/venv/bin/python
"""
C12 - peak properties and frame-to-frame merging conserve pixels and intensity.

Tier 1 (this file, engines C + A): frame HISTORIES through ImageD11.labelimage on the instrumented module.
labelimage carries the current and the previous frame's label image and property table from call to call and
bloboverlaps rewrites both; the property is about the history of peaksearch/mergelast/finalise calls.  One run =
one generated 3D scene (blobs that grow, shrink, split, join, two blobs linked only through the previous or the
next frame, empty frames, border blobs, zero and negative omega steps) fed frame by frame, with the
connectedpixels relabel loop under a seeded team schedule, garbage in the simulated heap, a seed-chosen initial
disjoint-set capacity and a moving realloc.  Oracle: independent 3D labelling (scipy.ndimage.label with the
in-plane-8 / same-pixel-across-frames structure); rows of the .flt output <-> components one to one; pixel
count, sum I, sum I^2, centroids in s, f, omega, maximum pixel and its position, bounding box per component.

Tier 2 (checks/c12.py imports pysched when present): the threaded peaksearch pipeline, see DESIGN.md.
"""
from __future__ import print_function
import os, sys, random, io, contextlib
sys.path.insert(0, os.path.dirname(os.path.dirname(os.path.abspath(__file__))))
import numpy as np
import scipy.ndimage
from common import runner, enginea, kernels
from pysched import pysched
import argparse, types, collections

STRUCT = np.zeros((3, 3, 3), int)
STRUCT[1, :, :] = 1
STRUCT[0, 1, 1] = STRUCT[2, 1, 1] = 1

COLS = ["sc", "fc", "omega", "Number_of_pixels", "avg_intensity", "s_raw", "f_raw", "sigs", "sigf", "covsf", "sigo", "covso",
        "covfo", "sum_intensity", "sum_intensity^2", "IMax_int", "IMax_s", "IMax_f", "IMax_o", "Min_s", "Max_s", "Min_f",
        "Max_f", "Min_o", "Max_o", "dety", "detz", "onfirst", "onlast", "spot3d_id"]


class RecordingKernels(object):
    """ImageD11.cImageD11 as labelimage sees it; the calls of the kernels that run without the GIL are recorded with
    copies of their arguments before and of everything they leave behind"""
    def __init__(self, real, log):
        self._real, self._log = real, log

    def __getattr__(self, n):
        return getattr(self._real, n)

    def bloboverlaps(self, b1, n1, r1, b2, n2, r2, verbose=0):
        ns, nf = b1.shape
        vals = {"labels1": b1.copy(), "npk1": int(n1), "results1": np.array(r1, float, copy=True), "labels2": b2.copy(), "npk2": int(n2),
                "results2": np.array(r2, float, copy=True), "verbose": 0, "ns": ns, "nf": nf}
        ret = self._real.bloboverlaps(b1, n1, r1, b2, n2, r2, verbose)
        if r1.flags.c_contiguous and r2.flags.c_contiguous:
            self._log.append(("bloboverlaps", vals, {"labels1": "io", "results1": "io", "labels2": "io", "results2": "io"},
                              {"return": int(ret), "labels1": b1.copy(), "results1": r1.copy(), "labels2": b2.copy(), "results2": r2.copy()}))
        return ret

    def blobproperties(self, data, labels, npk, omega=0.0, verbose=0):
        ns, nf = labels.shape
        vals = {"data": np.array(data, np.float32, copy=True), "labels": labels.copy(), "np": int(npk), "omega": float(omega), "verbose": 0,
                "ns": ns, "nf": nf, "results": [int(npk), cImageD11_NPROPERTY()]}
        res = self._real.blobproperties(data, labels, npk, omega=omega, verbose=verbose)
        self._log.append(("blobproperties", vals, {"data": "in", "labels": "in", "results": "out"}, {"results": np.array(res, copy=True)}))
        return res

    def blob_moments(self, res):
        if res.flags.c_contiguous and len(res):
            vals = {"results": np.array(res, float, copy=True), "np": len(res)}
            self._real.blob_moments(res)
            self._log.append(("blob_moments", vals, {"results": "io"}, {"results": res.copy()}))
        else:
            self._real.blob_moments(res)


def cImageD11_NPROPERTY():
    from ImageD11 import cImageD11
    return int(cImageD11.NPROPERTY)


def make_scene(rnd, g, nfr, ns, nf):
    M = np.zeros((nfr, ns, nf), bool)
    kind = rnd.choice(["blobs", "blobs", "crafted", "noise", "mixed"])
    zz, yy, xx = np.mgrid[0:nfr, 0:ns, 0:nf]
    if kind in ("blobs", "mixed"):
        for _ in range(rnd.randint(1, 8)):
            c = (g.uniform(-0.5, nfr), g.uniform(-0.5, ns), g.uniform(-0.5, nf))
            r = (g.uniform(0.4, 2.5), g.uniform(0.5, 3.5), g.uniform(0.5, 3.5))
            M |= ((zz - c[0]) / r[0]) ** 2 + ((yy - c[1]) / r[1]) ** 2 + ((xx - c[2]) / r[2]) ** 2 <= 1
    if kind in ("noise", "mixed"):
        M |= g.random(M.shape) < rnd.choice([0.03, 0.1, 0.25])
    if kind == "crafted" or rnd.random() < 0.3:
        # two blobs on one frame linked only through the previous / the next frame; forks; L shapes
        for _ in range(rnd.randint(1, 3)):
            k = rnd.randrange(nfr)
            y0, x0 = rnd.randrange(ns), rnd.randrange(max(1, nf - 4))
            ln = rnd.randint(3, max(3, min(6, nf - x0)))
            kk = k + rnd.choice([-1, 1])
            if 0 <= kk < nfr:
                M[kk, y0, x0:x0 + ln] = True            # a bar on the neighbouring frame
                M[k, y0, x0] = True                      # two dots at its ends on this frame
                M[k, y0, min(nf - 1, x0 + ln - 1)] = True
            if rnd.random() < 0.5 and y0 + 2 < ns and 0 <= kk < nfr:
                M[kk, y0:y0 + 3, x0] = True              # L shape ...
                M[k, y0 + 2, x0] = True                  # ... forking into a column and a dot
                M[k, y0, min(nf - 1, x0 + 2)] = True
    for _ in range(rnd.choice([0, 0, 1, 2])):
        M[rnd.randrange(nfr)] = False                    # empty frames
    if rnd.random() < 0.2:
        M[:, 0, :] |= g.random((nfr, nf)) < 0.3          # blobs on the image border
        M[:, :, -1] |= g.random((nfr, ns)) < 0.3
    return kind, M


class C12(object):
    id = "C12"
    engine = "histsim+simomp"
    time_keys = {"steps": "Engine A scheduler steps", "py_steps": "Engine B pre-emption points (source lines)", "virtual_seconds": "virtual seconds of the pipeline clock", "frames": "frames pushed through labelimage"}
    fault_keys = ["switches", "realloc_moved", "realloc_stay", "alloc", "free", "parallel_runs", "eager_timer_runs", "pipeline_runs", "empty_frames"]
    tiers = {"quick": {"runs": 6000, "budget_s": 60, "selftest_every": 50, "fresh_selftest": 8},
             "thorough": {"runs": 600000, "budget_s": 800, "selftest_every": 300, "fresh_selftest": 16}}
    rule = ("one run = one frame history (1..40 frames of 4x4..32x32) through labelimage.peaksearch / output2dpeaks / "
            "mergelast / finalise on the instrumented module (team, strategy, heap garbage, disjoint-set capacity, "
            "realloc mode drawn per run); distinct = distinct (scene digest, threshold, omega steps, capacity, team); "
            "non-trivial = at least one component spans two or more frames; also: NaN background pixels, thresholds down to -5000, two labelimage objects whose GIL-free kernel calls are replayed concurrently, detector-sized frames (65536 pixels and more), and (tier 2) the threaded peaksearch driver under the Python scheduler, in a fifth of those runs called twice in the run")
    components = {"real": enginea.COMPONENTS_REAL + ["connectedpixels, blobproperties, bloboverlaps, blob_moments, dset_*, "
                                                       "add_pixel, merge, compute_moments (machine code)",
                                                       "ImageD11.labelimage.labelimage (unchanged Python), blobcorrector.perfect"],
                  "stub": enginea.COMPONENTS_STUB + ["output streams (io.StringIO, a seam labelimage already has)"]}
    assumptions = ["pixel intensities are distinct positive integers above the threshold (so the maximum pixel identifies "
                   "its component and sums are exact), omega values are float32-representable",
                   "the 3D reference structure is 8-connectivity in plane and the same pixel on adjacent frames",
                   "onfirst/onlast are not checked beyond being 0/1 (they flag output batches, not peaks)"]

    def prepare(self, ctx):
        enginea.prepare_sim(ctx, import_imaged11=True)
        from ImageD11 import labelimage
        self.li = labelimage
        with contextlib.redirect_stdout(io.StringIO()):
            from ImageD11 import peaksearcher, ImageD11_thread
        self.ps, self.it = peaksearcher, ImageD11_thread
        ap = argparse.ArgumentParser()
        peaksearcher.get_options(ap)
        self.ps_defaults = ap

    def gen(self, rs, ctx):
        rnd = random.Random(rs)
        big = ctx.tier == "thorough" and rnd.random() < 0.1
        nfr = rnd.choice([1, 2, 2, 3, 3, 4, 5, 6, 8, 12]) if not big else rnd.randint(13, 40)
        ns, nf = rnd.choice([4, 5, 6, 8, 12, 16]), rnd.choice([4, 5, 7, 9, 12, 17])
        if big:
            ns, nf = rnd.randint(4, 32), rnd.randint(4, 32)
        cfg = enginea.draw_cfg(rnd, max_team=16)
        wide = (not big) and rnd.random() < 0.008
        if wide:
            # a detector-sized frame (the kernels treat frames of 65536 pixels and more as worth a team of their own)
            ns, nf = rnd.choice([(256, 256), (128, 512), (300, 220), (257, 256)])
            nfr = rnd.choice([2, 2, 3])
        ostep = rnd.choice([1.0, 0.25, -0.5, 0.0, 2.5])
        tier2 = (not big) and (not wide) and rnd.random() < 0.3
        if tier2:
            return {"entry": "peaksearch-pipeline", "tier2": True, "nfr": min(nfr, 8), "ns": min(ns, 12), "nf": min(nf, 12),
                    "wseed": rnd.getrandbits(48), "threshold": rnd.choice([0.0, 5.0]), "omega0": 0.0, "ostep": rnd.choice([1.0, 0.25, -0.5]),
                    "nthresh": rnd.choice([1, 2, 3]), "dark": rnd.random() < 0.4, "omega_in_header": rnd.random() < 0.6,
                    "irregular_omega": rnd.random() < 0.5, "dup_threshold": rnd.random() < 0.25,
                    # the driver is called a second time in the same process (a script treating several scans)
                    "second_series": rnd.random() < 0.2,
                    "write2d": True, "cfg": dict(cfg, team=1),
                    "strategy": rnd.choice(["random", "random", "pct", "rr", "rtc"]), "p_inv": rnd.choice([1, 2, 4, 16, 64]),
                    "quantum": rnd.choice([1, 3, 10]), "pct_d": rnd.choice([1, 2, 3]), "sseed": rnd.getrandbits(48),
                    "eager_sleep": rnd.random() < 0.35}
        d = {"entry": "labelimage-history", "nfr": nfr, "ns": ns, "nf": nf, "wseed": rnd.getrandbits(48),
             "threshold": rnd.choice([0.0, 5.0, 100.0, -5000.0]), "omega0": rnd.choice([0.0, -10.0, 90.5]), "ostep": ostep,
             "write2d": rnd.random() < 0.4, "cfg": cfg, "reuse_buffer": rnd.random() < 0.3,
             "own_labels": rnd.choice([0, 0, 0, 1, 2, 3])}
        if not big and not wide and rnd.random() < 0.2:
            # a second labelimage (another threshold / detector, as the threaded peaksearcher runs them) whose GIL-free
            # kernel calls overlap in time with those of the first
            d["concurrent"] = {"wseed": rnd.getrandbits(48), "nfr": rnd.choice([2, 3, 4]), "ns": rnd.choice([4, 6, 9]),
                               "nf": rnd.choice([4, 7, 10]), "ccfg": enginea.draw_cfg(rnd, max_team=4), "gstyle": rnd.choice([0, 1])}
        return d

    def describe(self, desc):
        return {k: desc[k] for k in desc if k != "replay"}

    def scene(self, desc):
        if "vol" in desc:  # explicit scene (minimised replay files)
            vol = np.array(desc["vol"], np.float32)
            return "explicit", vol > desc["threshold"], vol, np.array(desc["omegas"], np.float32)
        rnd = random.Random(desc["wseed"])
        g = np.random.default_rng(desc["wseed"])
        nfr, ns, nf = desc["nfr"], desc["ns"], desc["nf"]
        kind, M = make_scene(rnd, g, nfr, ns, nf)
        thr = desc["threshold"]
        nv = int(M.sum())
        vol = (thr - g.integers(0, 6, M.shape)).astype(np.float32)          # background at or below the threshold
        vol[M] = thr + 1 + g.permutation(nv)                                  # distinct intensities above it
        if rnd.random() < 0.15 and (~M).any():
            # dead / masked pixels of processed data: not-a-number is not above any threshold
            bk = np.argwhere(~M)
            for q in range(min(len(bk), rnd.randint(1, 3))):
                vol[tuple(bk[rnd.randrange(len(bk))])] = np.nan
        omegas = (desc["omega0"] + desc["ostep"] * np.arange(nfr)).astype(np.float32)
        if desc.get("tier2") and desc.get("omega_in_header") and desc.get("irregular_omega") and nfr > 1:
            # the angles come from the image headers and are not equally spaced; one of them is exactly zero
            steps = np.array([rnd.choice([0.25, 0.5, 0.75, 1.0, 1.25]) for _ in range(nfr - 1)])
            om = np.concatenate([[0.0], np.cumsum(steps)])
            omegas = ((om - om[rnd.randrange(nfr)]) * (1 if desc["ostep"] > 0 else -1)).astype(np.float32)
        return kind, M, vol, omegas

    def execute(self, desc, ctx):
        if desc.get("tier2"):
            return self.exec_pipeline(desc, ctx)
        sim = ctx.sim
        cfg = desc["cfg"]
        kind, M, vol, omegas = self.scene(desc)
        nfr, ns, nf = M.shape
        thr = desc["threshold"]
        enginea.apply_cfg(sim, cfg, strict=0, track_conflicts=0, pct_est=max(30, 6 * ns * nf // cfg["team"]), step_cap=4000000000)
        sim.begin_run()
        out, spt = io.StringIO(), io.StringIO()
        viol = None
        callsA = []
        real_c = self.li.cImageD11
        try:
            self.li.cImageD11 = RecordingKernels(real_c, callsA)
            with contextlib.redirect_stdout(io.StringIO()):
                lab = self.li.labelimage((ns, nf), fileout=out, sptfile=spt)
                fbuf = np.zeros((ns, nf), np.float64)
                for k in range(nfr):
                    if desc.get("reuse_buffer"):
                        fbuf[:] = vol[k]            # every frame is read into the same (float64) array
                        lab.peaksearch(fbuf, thr, float(omegas[k]))
                    else:
                        lab.peaksearch(vol[k], thr, float(omegas[k]))
                    if desc["write2d"] and lab.npk > 0:
                        lab.output2dpeaks(spt)
                    lab.mergelast()
                lab.finalise()
        except Exception as e:
            if runner.is_harness_exception(e):
                raise
            viol = {"class": "raises", "key": "labelimage:raises", "detail": "%s: %s" % (type(e).__name__, e)}
        finally:
            self.li.cImageD11 = real_c
        st = sim.stats()
        ref, ncomp = scipy.ndimage.label(M, STRUCT)
        rows = []
        if viol is None:
            for line in out.getvalue().splitlines():
                if line.startswith("#") or not line.strip():
                    continue
                rows.append([float(x) for x in line.split()])
            viol = self.compare(rows, ref, ncomp, vol, omegas, M)
        if viol is None and desc.get("own_labels") and M[0].any():
            # the caller brings its own label image for a frame (specks wiped, so the label numbers have gaps): every label that is
            # present gets its pixels and its summed intensity
            bl_, nb_ = scipy.ndimage.label(M[0], np.ones((3, 3)))
            bl_ = (bl_ * desc["own_labels"] - (desc["own_labels"] - 1) * (bl_ > 0)).astype(np.int32)    # 1, 1+k, 1+2k, ...
            try:
                with contextlib.redirect_stdout(io.StringIO()):
                    lab_o = self.li.labelimage((ns, nf), fileout=io.StringIO(), sptfile=io.StringIO())
                    lab_o.measurepeaks(vol[0], float(omegas[0]), blim=bl_)
                res_o = np.zeros((0, 1)) if lab_o.res is None else np.asarray(lab_o.res)
                for L_ in np.unique(bl_[bl_ > 0]):
                    npx_ = int((bl_ == L_).sum())
                    si_ = float(np.nan_to_num(vol[0])[bl_ == L_].astype(np.float64).sum())
                    if L_ - 1 >= len(res_o) or int(res_o[L_ - 1][real_c.s_1]) != npx_ or \
                            abs(float(res_o[L_ - 1][real_c.s_I]) - si_) > 1e-6 * max(1.0, abs(si_)):
                        viol = {"class": "property-differs", "key": "labelimage:own-labels:property-differs",
                                "detail": "measurepeaks(blim=caller's label image with labels %s): label %d has %d pixels, the results table "
                                          "holds %s rows and %s pixels for it" % (np.unique(bl_[bl_ > 0])[:6].tolist(), int(L_), npx_, len(res_o),
                                                                                   res_o[L_ - 1][real_c.s_1] if L_ - 1 < len(res_o) else "no row")}
                        break
            except Exception as e:
                if runner.is_harness_exception(e):
                    raise
                viol = {"class": "raises", "key": "labelimage:own-labels:raises", "detail": "measurepeaks(blim=...) raised %s: %s" % (type(e).__name__, e)}
        nconc = 0
        if viol is None and desc.get("concurrent"):
            viol, nconc = self.exec_concurrent(desc, ctx, callsA)
        multi = 0
        if ncomp:
            fr = [np.unique(np.nonzero(ref == c + 1)[0]).size for c in range(min(ncomp, 50))]
            multi = sum(1 for x in fr if x > 1)
        meas = enginea.run_measures(st, cfg)
        meas["scene_kind"] = {kind: 1}
        meas["frames"] = nfr
        meas["frames_of_65536_pixels_or_more"] = nfr if ns * nf >= 65536 else 0
        meas["components"] = ncomp
        meas["components_spanning_frames"] = multi
        meas["empty_frames"] = int((M.reshape(nfr, -1).sum(axis=1) == 0).sum())
        meas["concurrent_kernel_call_pairs"] = nconc
        return {"digest": enginea.sha(st["digest"], out.getvalue()),
                "sig": "%s/%s/%s/%s/%s" % (enginea.sha(M, vol), thr, desc["ostep"], cfg.get("dset_cap"), cfg["team"]),
                "nontrivial": multi > 0, "viol": viol, "measures": meas}

    def exec_concurrent(self, desc, ctx, callsA):
        """the kernels f2py runs without the GIL (blobproperties, bloboverlaps, blob_moments), as issued by two labelimage
        objects working on their own frames, overlapping in time: each call must leave what it leaves when made alone"""
        sim = ctx.sim
        c = desc["concurrent"]
        d2 = dict(desc, wseed=c["wseed"], nfr=c["nfr"], ns=c["ns"], nf=c["nf"])
        d2.pop("vol", None)
        kind, M, vol, omegas = self.scene(d2)
        callsB = []
        real_c = self.li.cImageD11
        enginea.apply_cfg(sim, dict(desc["cfg"], team=1), strict=0, track_conflicts=0, pct_est=100, step_cap=4000000000)
        sim.begin_run()
        try:
            self.li.cImageD11 = RecordingKernels(real_c, callsB)
            with contextlib.redirect_stdout(io.StringIO()):
                lab = self.li.labelimage(M.shape[1:], fileout=io.StringIO(), sptfile=io.StringIO())
                for k in range(M.shape[0]):
                    lab.peaksearch(vol[k], desc["threshold"], float(omegas[k]))
                    lab.mergelast()
                lab.finalise()
        finally:
            self.li.cImageD11 = real_c
        npairs = 0
        for name in ("bloboverlaps", "blobproperties", "blob_moments"):
            A = [x for x in callsA if x[0] == name][:3]
            B = [x for x in callsB if x[0] == name][:3]
            for (n_, va, ra, wantA), (n2_, vb, rb, wantB) in zip(A, B):
                outs, st = kernels.run_concurrent(sim, [(name, va, ra), (name, vb, rb)], c["ccfg"], gstyle=c["gstyle"],
                                                  pct_est=max(50, 20 * (M[0].size + desc["ns"] * desc["nf"])))
                npairs += 1
                v = enginea.viol_from_stats(st, name, {})
                if v is not None:
                    v["key"] = name + ":concurrent:" + v["class"]
                    return v, npairs
                for who, (ret, arrs), want in (("first", outs[0], wantA), ("second", outs[1], wantB)):
                    for an, w in want.items():
                        got = ret if an == "return" else arrs[an]
                        same = (got == w) if an == "return" else (np.asarray(got).tobytes() == np.asarray(w).tobytes())
                        if not same:
                            return {"class": "not-reentrant", "key": name + ":not-reentrant",
                                    "detail": "two labelimage objects inside %s at the same time, each on its own frames: the %s one "
                                              "gets another %s than when it makes the same call alone (state shared between calls)" %
                                              (name, who, an)}, npairs
        return None, npairs

    # ------------------------------------------------------------------ tier 2: the threaded pipeline
    def exec_pipeline(self, desc, ctx):
        """peaksearcher.peaksearch_driver (reader -> corrector -> one searcher per threshold, bounded queues, polling main
        thread) under the deterministic thread scheduler; the merged-peaks file of every threshold must be byte-identical
        to the --singleThread run of the same series, every frame must reach every searcher exactly once and in order, and
        the driver must return within a bound of virtual time"""
        sim = ctx.sim
        ps, it = self.ps, self.it
        kind, M, vol, omegas = self.scene(desc)
        nfr, ns, nf = M.shape
        thr0 = desc["threshold"]
        thresholds = [thr0 + 1 + 50.0 * k for k in range(desc["nthresh"])]
        dark = np.full((ns, nf), 1.0, np.float32) if desc["dark"] else None
        vol_in = vol + (1.0 if desc["dark"] else 0.0)
        enginea.apply_cfg(sim, desc["cfg"], strict=0, track_conflicts=0, step_cap=4000000000)
        sim.begin_run()
        d = os.path.join(ctx.scratch, "c12_%d" % os.getpid())
        os.makedirs(d, exist_ok=True)

        class Frame(object):
            def __init__(self, k):
                self.data = vol_in[k].copy()
                self.header = {"Omega": float(omegas[k])} if desc["omega_in_header"] else {}
                self.filename = "frame"
                self.currentframe = k

        def series():
            for k in range(nfr):
                yield Frame(k)

        def options(tag, one):
            o = self.ps_defaults.parse_args([])
            o.format = "py"
            o.stem = "verif_c12_series"
            o.outfile = os.path.join(d, tag + ".spt")
            # the same threshold may be given twice on the command line: it is searched once
            o.thresholds = thresholds + ([thresholds[0], float(thresholds[-1])] if desc.get("dup_threshold") else [])
            o.oneThread = one
            o.perfect = "Y"
            o.OMEGA, o.OMEGASTEP, o.OMEGAOVERRIDE = float(omegas[0]), float(desc["ostep"]), False
            o.killfile = None
            return o

        def install_series():
            m = types.ModuleType("verif_c12_series")
            m.first_image = Frame(0)
            m.file_series_object = series()
            sys.modules["verif_c12_series"] = m

        def V(cls, detail):
            return {"class": cls, "key": "pipeline:" + cls, "detail": detail}

        viol = None
        saved_open = ps.openimage
        if dark is not None:
            ps.openimage = lambda name: types.SimpleNamespace(data=dark.copy())
        sched = None
        try:
            # reference: single thread, natively
            install_series()
            o1 = options("single", True)
            if dark is not None:
                o1.dark = "dark.edf"
            with contextlib.redirect_stdout(io.StringIO()):
                ps.peaksearch_driver(o1, [])
            # threaded, simulated
            install_series()
            o2 = options("threaded", False)
            if dark is not None:
                o2.dark = "dark.edf"
            sched = pysched.Sched(desc["sseed"], strategy=desc["strategy"], p_inv=desc["p_inv"], quantum=desc["quantum"],
                                  pct_d=desc["pct_d"], pct_est=3000, step_cap=3000000, time_cap=1e5,
                                  trace_files=[ps.__file__, it.__file__, self.li.__file__], replay=desc.get("replay"),
                                  eager_sleep=desc.get("eager_sleep", False))
            qshim = types.SimpleNamespace(Queue=lambda maxsize=0: pysched.SimQueue(sched, maxsize), Empty=ps.queue.Empty, Full=ps.queue.Full)
            saved = (ps.queue, ps.time, it.ImageD11_thread.start, it.ImageD11_thread.join, it.ImageD11_thread.is_alive)
            sthreads = {}

            def t_start(self_):
                sthreads[id(self_)] = sched.spawn(self_.run, getattr(self_, "myname", "thread"))

            def t_join(self_, timeout=None):
                return sched.join(sthreads[id(self_)], timeout)

            def t_alive(self_):
                sched.point("is_alive")
                t = sthreads.get(id(self_))
                return t is not None and t.state != "done"
            it.stop_now = False
            try:
                ps.queue, ps.time = qshim, pysched.SimTime(sched, saved[1])
                it.ImageD11_thread.start, it.ImageD11_thread.join, it.ImageD11_thread.is_alive = t_start, t_join, t_alive
                with contextlib.redirect_stdout(io.StringIO()):
                    try:
                        def both_():
                            ps.peaksearch_driver(o2, [])
                            if desc.get("second_series"):
                                install_series()
                                o3 = options("threadedb", False)
                                if dark is not None:
                                    o3.dark = "dark.edf"
                                ps.peaksearch_driver(o3, [])
                        sched.run(both_)
                    except pysched.Deadlock as e:
                        viol = V("deadlock", str(e)[:300])
                    except pysched.StepCap as e:
                        viol = V("no-progress", "the driver did not return within the step budget: %s" % e)
            finally:
                ps.queue, ps.time = saved[0], saved[1]
                it.ImageD11_thread.start, it.ImageD11_thread.join, it.ImageD11_thread.is_alive = saved[2], saved[3], saved[4]
                it.stop_now = False
        except Exception as e:
            if viol is None:
                viol = V("raises", "%s: %s" % (type(e).__name__, str(e)[:200]))
        finally:
            ps.openimage = saved_open
            sys.modules.pop("verif_c12_series", None)
        st = sim.stats()
        texts = []
        # labelimage never closes its output files: they are flushed when the objects die.  Drop every reference the
        # simulation still holds (thread objects keep their searcher and its labelimage alive) before reading them
        if sched is not None:
            for t in sched.threads:
                t.fn = None
                t.real = None
            try:
                sthreads.clear()
            except NameError:
                pass
        import gc
        gc.collect()
        if viol is None:
            excs = [e for e in sched.events if e[0] == "thread-exception"]
            if excs:
                viol = V("thread-raises", "a pipeline thread raised: %s" % (excs[0],))
        if viol is None:
            for t in thresholds:
                a = open(os.path.join(d, "single_t%d.flt" % t)).read()
                b = open(os.path.join(d, "threaded_t%d.flt" % t)).read()
                texts.append(b)
                if a != b:
                    viol = V("threaded-differs", "threshold %g: the merged peaks written by the threaded pipeline differ from the "
                                                 "single-thread run of the same frames (%d vs %d lines; strategy %s)" %
                             (t, len(b.splitlines()), len(a.splitlines()), desc["strategy"]))
                    break
                if desc.get("second_series"):
                    c = open(os.path.join(d, "threadedb_t%d.flt" % t)).read()
                    texts.append(c)
                    if a != c:
                        viol = V("threaded-differs", "threshold %g: the SECOND threaded run of the driver in one process writes other merged "
                                                     "peaks than the single-thread run of the same frames (%d vs %d lines; strategy %s)" %
                                 (t, len(c.splitlines()), len(a.splitlines()), desc["strategy"]))
                        break
        if viol is None:
            # every frame reaches every searcher exactly once and in order (recorded history of queue events)
            gets = collections.defaultdict(list)
            for e in sched.events:
                if e[0] == "get" and e[2].startswith("peaksearch_one"):
                    gets[e[2]].append(e[3])
            want = (["frame[%d]" % k for k in range(nfr)] + ["None"]) * (2 if desc.get("second_series") else 1)
            if len(gets) != len(thresholds):
                viol = V("delivery", "%d searcher threads received frames, %d thresholds" % (len(gets), len(thresholds)))
            for name, seq in gets.items():
                if seq != want:
                    viol = V("delivery", "searcher %s received %s, the series is %s" % (name, seq[:12], want[:12]))
                    break
        if viol is None and sched.clock > (20.0 if desc.get("second_series") else 10.0) and not desc.get("eager_sleep"):
            viol = V("liveness", "the driver returned only after %.1f virtual seconds" % sched.clock)
        if viol is None:
            # and the output itself is right (tier 1 oracle on the lowest threshold)
            ref, ncomp = scipy.ndimage.label(vol > thresholds[0], STRUCT)
            rows = [[float(x) for x in line.split()] for line in texts[0].splitlines() if line.strip() and not line.startswith("#")]
            Mt = vol > thresholds[0]
            viol = self.compare(rows, ref, ncomp, vol, omegas, Mt)
            if viol is not None:
                viol["key"] = "pipeline:" + viol["class"]
        meas = enginea.run_measures(st, desc["cfg"])
        meas["scene_kind"] = {kind: 1}
        meas["pipeline_runs"] = 1
        meas["second_driver_call_in_one_process"] = 1 if desc.get("second_series") else 0
        if sched is not None:
            meas["py_steps"], meas["py_switches"], meas["virtual_seconds"] = sched.steps, sched.switches, sched.clock
            meas["py_threads"] = len(sched.threads)
            meas["py_strategy"] = {desc["strategy"]: 1}
            meas["eager_timer_runs"] = 1 if desc.get("eager_sleep") else 0
        return {"digest": enginea.sha(st["digest"], texts, sched.digest() if sched else None),
                "sig": "pipe/%s/%s/%s" % (enginea.sha(M, vol), desc["nthresh"], sched.sched_sig() if sched else "-"),
                "nontrivial": nfr >= 2, "viol": viol, "measures": meas}

    def minimise(self, desc, viol, ctx):
        """make the scene explicit, then drop frames and crop rows / columns while the same violation class persists"""
        import time as _time
        if desc.get("tier2"):
            return desc
        cls = viol["class"]
        t_end = _time.time() + 90
        kind, M, vol, omegas = self.scene(desc)
        d = dict(desc)
        d["vol"], d["omegas"] = vol.tolist(), [float(x) for x in omegas]

        def fails(dd):
            if _time.time() > t_end:
                return False
            try:
                r = self.execute(dd, ctx)
            except Exception:
                return False
            return r["viol"] is not None and r["viol"]["class"] == cls
        if not fails(d):
            return desc

        def cut(dd, axis, lo, hi):
            v = np.array(dd["vol"], np.float32)
            sl = [slice(None)] * 3
            sl[axis] = slice(lo, v.shape[axis] - hi)
            v = v[tuple(sl)]
            n = dict(dd)
            n["vol"] = v.tolist()
            if axis == 0:
                n["omegas"] = dd["omegas"][lo:len(dd["omegas"]) - hi]
            n["nfr"], n["ns"], n["nf"] = v.shape
            return n
        progress = True
        while progress:
            progress = False
            for axis in (0, 1, 2):
                for lo, hi in ((0, 1), (1, 0)):
                    shape = np.array(d["vol"]).shape
                    if shape[axis] <= (1 if axis == 0 else 2):
                        continue
                    cand = cut(d, axis, lo, hi)
                    if fails(cand):
                        d = cand
                        progress = True
        return d

    def compare(self, rows, ref, ncomp, vol, omegas, M):
        def V(cls, detail):
            return {"class": cls, "key": "labelimage:" + cls, "detail": detail}
        if len(rows) != ncomp:
            tot_px = sum(r[3] for r in rows)
            return V("peak-count", "%d peaks written, the scene has %d connected components (pixels written %d, in scene %d)" %
                     (len(rows), ncomp, tot_px, int(M.sum())))
        # the maximum pixel identifies the component (intensities are distinct)
        byint = {}
        idx = np.argwhere(M)
        for (k, i, j) in idx:
            byint[float(vol[k, i, j])] = (k, i, j)
        seen = set()
        ids = []
        for r in rows:
            d = dict(zip(COLS, r))
            ids.append(int(d["spot3d_id"]))
            pos = byint.get(d["IMax_int"])
            if pos is None:
                return V("max-pixel", "peak reports maximum intensity %r which is no above-threshold pixel of the scene" % d["IMax_int"])
            c = int(ref[pos])
            if c in seen:
                return V("duplicate-peak", "two written peaks belong to the same connected component (#%d)" % c)
            seen.add(c)
            vox = np.argwhere(ref == c)
            I = vol[ref == c].astype(float)
            ks, ss, fs = vox[:, 0], vox[:, 1].astype(float), vox[:, 2].astype(float)
            om = omegas[ks].astype(float)
            # the component's own maximum
            km = int(np.argmax(I))
            want = {"Number_of_pixels": len(I), "sum_intensity": I.sum(), "sum_intensity^2": (I * I).sum(),
                    "s_raw": (ss * I).sum() / I.sum(), "f_raw": (fs * I).sum() / I.sum(), "omega": (om * I).sum() / I.sum(),
                    "sc": (ss * I).sum() / I.sum(), "fc": (fs * I).sum() / I.sum(),
                    "avg_intensity": I.sum() / len(I),
                    "IMax_int": I[km], "IMax_s": ss[km], "IMax_f": fs[km], "IMax_o": om[km],
                    "Min_s": ss.min(), "Max_s": ss.max(), "Min_f": fs.min(), "Max_f": fs.max(),
                    "Min_o": om.min(), "Max_o": om.max()}
            for name, w in want.items():
                if I.sum() == 0 and name in ("s_raw", "f_raw", "omega", "sc", "fc"):
                    continue    # zero total intensity (negative thresholds): an intensity-weighted centroid is not defined
                lim = 5.1e-5 + 1e-9 * abs(w)
                if name in ("Number_of_pixels", "IMax_s", "IMax_f", "Min_s", "Max_s", "Min_f", "Max_f"):
                    lim = 0.0
                if not abs(d[name] - w) <= lim:
                    return V("property-differs", "component #%d (%d pixels over frames %s): %s written as %r, the component has %r" %
                             (c, len(I), sorted(set(ks.tolist())), name, d[name], float(w)))
            if d["onfirst"] not in (0.0, 1.0) or d["onlast"] not in (0.0, 1.0):
                return V("flags", "onfirst/onlast not 0/1")
        if sorted(ids) != list(range(len(rows))) or ids != sorted(ids):
            return V("spot3d_id", "spot3d_id values %s are not 0..n-1 in order" % ids[:10])
        return None


CHECK = C12()
if __name__ == "__main__":
    sys.exit(runner.main(CHECK))
