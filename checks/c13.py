#!/venv/bin/python
"""
C13 - local-maximum labelling follows steepest ascent for every thread count.

Engine A (simomp): the real localmaxlabel / sparse_localmaxlabel kernels at -O2 under the simulated
OpenMP runtime.  One run = one image x one team size x one seeded interleaving x one garbage fill of
the labels / work buffers (and of the stacks).  Oracle: an independent Python steepest-ascent
labelling; the result must be bitwise equal to it for every schedule and garbage.
"""
from __future__ import print_function
import os, sys, random
sys.path.insert(0, os.path.dirname(os.path.dirname(os.path.abspath(__file__))))
import numpy as np
from common import runner, enginea, kernels
from common.enginea import simlib

OFFS = [(-1, -1), (-1, 0), (-1, 1), (0, -1), (0, 0), (0, 1), (1, -1), (1, 0), (1, 1)]


# ---------------------------------------------------------------------- reference models
def ref_dense(im):
    """steepest ascent on the 8-neighbourhood; border ring is background; a path that steps onto the
    border ring ends there (label 0); maxima are numbered in raster order"""
    ns, nf = im.shape
    lab = np.zeros((ns, nf), np.int32)
    nxt = {}
    nmax = 0
    for i in range(1, ns - 1):
        for j in range(1, nf - 1):
            best = None
            for di, dj in OFFS:
                v = im[i + di, j + dj]
                if best is None or v > best[0]:
                    best = (v, i + di, j + dj)
            if (best[1], best[2]) == (i, j):
                nmax += 1
                lab[i, j] = nmax
            else:
                nxt[(i, j)] = (best[1], best[2])
    for (i, j) in nxt:
        p = (i, j)
        while p in nxt:
            p = nxt[p]
        lab[i, j] = lab[p]  # 0 if p is on the border ring
    return lab, nmax


def ref_sparse(row, col, val):
    """steepest ascent among the pixels that are present; maxima numbered in pixel (raster) order"""
    pos = {(int(r), int(c)): k for k, (r, c) in enumerate(zip(row, col))}
    n = len(val)
    up = list(range(n))
    for k in range(n):
        best = (val[k], k)
        for di, dj in OFFS:
            q = pos.get((int(row[k]) + di, int(col[k]) + dj))
            if q is not None and val[q] > best[0]:
                best = (val[q], q)
        up[k] = best[1]
    lab = np.zeros(n, np.int32)
    nmax = 0
    for k in range(n):
        if up[k] == k:
            nmax += 1
            lab[k] = nmax
    for k in range(n):
        p = k
        while up[p] != p:
            p = up[p]
        lab[k] = lab[p]
    return lab, nmax


def canon(labels):
    """partition signature: relabel by first occurrence"""
    m = {}
    return [m.setdefault(int(x), len(m)) for x in labels]


# ---------------------------------------------------------------------- workloads
def make_image(rnd, ns, nf, kind):
    g = np.random.default_rng(rnd.getrandbits(48))
    yy, xx = np.mgrid[0:ns, 0:nf].astype(float)
    if kind == "perm":
        base = g.random((ns, nf))
    elif kind == "gauss":
        base = np.zeros((ns, nf))
        for _ in range(rnd.randint(1, 4)):
            cy, cx = g.uniform(0, ns), g.uniform(0, nf)
            s = g.uniform(1.5, max(ns, nf))
            base += g.uniform(0.5, 2) * np.exp(-((yy - cy) ** 2 + (xx - cx) ** 2) / (2 * s * s))
        base += g.random((ns, nf)) * 1e-6
    elif kind == "ramp":
        cy, cx = rnd.choice([(0, 0), (0, nf - 1), (ns - 1, 0), (ns - 1, nf - 1), (ns // 2, nf // 2)])
        base = -np.hypot(yy - cy, xx - cx) + g.random((ns, nf)) * 1e-3
    elif kind == "single":
        cy, cx = rnd.randint(1, ns - 2), rnd.randint(1, nf - 2)
        base = -((yy - cy) ** 2 + 1.37 * (xx - cx) ** 2) + g.random((ns, nf)) * 1e-3
    elif kind == "snake":
        # one ridge that winds left-right through the whole image (every second row, joined at alternating ends): the ascent
        # path to its single maximum is about rows*columns/2 steps long, far longer than rows+columns
        base = g.random((ns, nf)) * 0.5
        path = []
        rows = list(range(1, ns - 1, 2))
        for q, r in enumerate(rows):
            cols = list(range(1, nf - 1))
            if q % 2:
                cols = cols[::-1]
            path += [(r, c) for c in cols]
            if q + 1 < len(rows):
                path.append((r + 1, cols[-1]))
        if rnd.random() < 0.5:
            path = path[::-1]
        for k, (r, c) in enumerate(path):
            base[r, c] = 10.0 + k
    elif kind == "edge":  # maxima next to the border, border ring low or high
        base = g.random((ns, nf))
        base[1, :] += 2
        base[:, 1] += 2
        if rnd.random() < 0.5:
            base[0, :] += 5
            base[:, -1] += 5
    else:  # ridge: long one-pixel wide ascent paths
        base = np.sin(yy * g.uniform(0.2, 1.5)) * np.cos(xx * g.uniform(0.2, 1.5)) + 0.01 * (yy + xx) \
            + g.random((ns, nf)) * 1e-6
    # ranks: all values distinct and exactly representable in float32
    ranks = np.empty(ns * nf, np.float32)
    ranks[np.argsort(base.ravel(), kind="stable")] = np.arange(1, ns * nf + 1, dtype=np.float32)
    # any image: positive, mixed sign with an exact zero (background subtracted data), all negative, large magnitudes
    mode = rnd.choice(["pos", "pos", "mixed", "neg", "big"])
    if mode == "mixed":
        ranks -= float(ns * nf // 2)
    elif mode == "neg":
        ranks -= float(ns * nf + 3)
    elif mode == "big":
        ranks = (ranks - float(ns * nf // 2)) * np.float32(2.0 ** 40)
    return ranks.reshape(ns, nf)


KINDS = ["perm", "gauss", "gauss", "ramp", "single", "edge", "ridge", "ridge", "snake"]


class C13(object):
    id = "C13"
    engine = "simomp"
    time_keys = {"steps": "scheduler steps (one per instrumented access, GOMP entry or allocator call)"}
    fault_keys = ["switches", "realloc_moved", "realloc_stay", "alloc", "free", "parallel_runs"]
    tiers = {"quick": {"runs": 50000, "budget_s": 50, "selftest_every": 40, "fresh_selftest": 12},
             "thorough": {"runs": 12000000, "budget_s": 780, "selftest_every": 200, "fresh_selftest": 24}}
    rule = ("one run = (image, variant dense|sparse, team 1..64, strategy random/pct/rtc/rr, seeded interleaving at "
            "instrumented-access granularity, garbage in labels/wrk/MV/iMV and on the stacks); distinct = distinct "
            "(image digest, team delivered, conflict signature = hash of the order of cross-thread accesses to "
            "shared bytes); non-trivial = team >= 2 delivered (dense) or nnz >= 2 (sparse); also: a second simulated Python thread labelling another sparse frame, SparseScan.lmlabel scans relabelled with other options and compared with fresh objects, frame objects (and frames derived from them) labelled one after the other")
    components = {"real": enginea.COMPONENTS_REAL + ["localmaxlabel, neighbormax, sparse_localmaxlabel (machine code "
                                                       "of the -O2 build)"],
                  "stub": enginea.COMPONENTS_STUB}
    assumptions = ["interleavings are sequentially consistent at the granularity of gcc's instrumented accesses of an "
                   "-O2 build; compiler/CPU reordering of the uninstrumented shipped build is outside the model",
                   "images have no equal 8-neighbours (rank images), as the property statement requires",
                   "out-of-range indexing of stack arrays is not visible to the access callbacks"]

    def prepare(self, ctx):
        enginea.prepare_sim(ctx, import_imaged11=True)
        from ImageD11 import sparseframe
        import h5py
        self.sf, self.h5py = sparseframe, h5py

    # ------------------------------------------------------------ generation
    def gen(self, rs, ctx):
        rnd = random.Random(rs)
        big = ctx.tier == "thorough" and rnd.random() < 0.15
        if big:
            ns, nf = rnd.randint(3, 96), rnd.randint(3, 96)
        else:
            ns, nf = rnd.choice([3, 3, 4, 5, 6, 8, 12, 17, 24]), rnd.choice([3, 4, 5, 7, 9, 14, 16, 25])
        variant = "sparse" if rnd.random() < 0.2 else "dense"
        if rnd.random() < 0.06:
            # a scan of several frames through sparseframe.SparseScan.lmlabel: the work buffers of one frame are the
            # previous content for the next one
            nfr = rnd.randint(2, 6)
            frames = []
            for _ in range(nfr):
                im = make_image(rnd, ns, nf, rnd.choice(KINDS))
                g = np.random.default_rng(rnd.getrandbits(48))
                m = g.random((ns, nf)) < rnd.choice([0.0, 0.1, 0.5, 0.9])
                if rnd.random() < 0.3:
                    m[0, 0] = True  # first stored pixel is (often) a local maximum of its own
                r, c = np.nonzero(m)
                frames.append({"row": r.tolist(), "col": c.tolist(), "val": [float(x) for x in im[m]]})
            return {"entry": "SparseScan.lmlabel", "ns": ns, "nf": nf, "kind": "scan", "frames": frames,
                    "countall": rnd.random() < 0.5, "cfg": enginea.draw_cfg(rnd, max_team=1), "gstyle": 0}
        kind = rnd.choice(KINDS)
        im = make_image(rnd, ns, nf, kind)
        cfg = enginea.draw_cfg(rnd, max_team=64)
        desc = {"entry": "localmaxlabel" if variant == "dense" else "sparse_localmaxlabel",
                "ns": ns, "nf": nf, "kind": kind, "cfg": cfg, "gstyle": rnd.choice([0, 1, 1])}
        if variant == "dense":
            desc["image"] = [float(x) for x in im.ravel()]
        else:
            fill = rnd.choice([0.05, 0.2, 0.5, 0.8, 1.0])
            g = np.random.default_rng(rnd.getrandbits(48))
            m = g.random((ns, nf)) < fill
            if rnd.random() < 0.3 and ns > 2:
                m[rnd.randint(0, ns - 1), :] = False  # empty row
            if not m.any():
                m[rnd.randint(0, ns - 1), rnd.randint(0, nf - 1)] = True
            r, c = np.nonzero(m)
            roff, coff = rnd.choice([0, 0, 1, 1000, 65535 - ns]), rnd.choice([0, 0, 1, 1000, 65535 - nf])
            desc["row"] = [int(x) + roff for x in r]
            desc["col"] = [int(x) + coff for x in c]
            desc["val"] = [float(x) for x in im[m]]
            cfg["team"] = 1
            if rnd.random() < 0.25:
                # another Python thread labels another frame at the same time (the kernel runs without the GIL)
                ns2, nf2 = rnd.choice([3, 4, 6, 9]), rnd.choice([3, 5, 8])
                im2 = make_image(rnd, ns2, nf2, rnd.choice(KINDS))
                m2 = g.random((ns2, nf2)) < rnd.choice([0.3, 0.7, 1.0])
                if not m2.any():
                    m2[0, 0] = True
                r2, c2 = np.nonzero(m2)
                desc["concurrent"] = {"row": [int(x) for x in r2], "col": [int(x) for x in c2], "val": [float(x) for x in im2[m2]],
                                      "ccfg": enginea.draw_cfg(rnd, max_team=4)}
        return desc

    def describe(self, desc):
        d = {k: desc[k] for k in ("entry", "ns", "nf", "kind", "cfg")}
        if "frames" in desc:
            d["frames_nnz"] = [len(f["val"]) for f in desc["frames"]]
            return d
        if "image" in desc:
            d["image_first_row"] = desc["image"][:desc["nf"]]
        else:
            d["nnz"] = len(desc["val"])
        return d

    # ------------------------------------------------------------ execution
    def exec_scan(self, desc, ctx):
        sim = ctx.sim
        cfg = desc["cfg"]
        frames = desc["frames"]
        p = os.path.join(ctx.scratch, "c13_scan_%d.h5" % os.getpid())
        if os.path.exists(p):
            os.remove(p)
        with self.h5py.File(p, "w") as h:
            grp = h.create_group("1.1")
            grp.attrs["nframes"], grp.attrs["shape0"], grp.attrs["shape1"] = len(frames), desc["ns"], desc["nf"]
            grp["row"] = np.concatenate([np.array(f["row"], np.uint16) for f in frames])
            grp["col"] = np.concatenate([np.array(f["col"], np.uint16) for f in frames])
            grp["intensity"] = np.concatenate([np.array(f["val"], np.float32) for f in frames])
            grp["nnz"] = np.array([len(f["val"]) for f in frames], np.int32)
        enginea.apply_cfg(sim, cfg, strict=0, track_conflicts=0, step_cap=20000000 + 20000 * sum(len(f["val"]) for f in frames))   # the scan is labelled up to ~15 times (relabelling, frame objects)
        sim.begin_run()
        viol = None
        try:
            import io, contextlib
            with contextlib.redirect_stdout(io.StringIO()):
                sc = self.sf.SparseScan(p, "1.1")
                sc.lmlabel(smooth=False, countall=desc["countall"])
        except Exception as e:
            viol = {"class": "raises", "key": "SparseScan.lmlabel:raises", "detail": "%s: %s" % (type(e).__name__, e)}
        st = sim.stats()
        lab_all = None
        if viol is None:
            off, pos = 0, 0
            lab_all = np.asarray(sc.labels)
            for k, f in enumerate(frames):
                n = len(f["val"])
                if n == 0:
                    if sc.nlabels[k] != 0:
                        viol = {"class": "count-differs", "key": "SparseScan.lmlabel:count-differs", "detail": "empty frame %d has %d labels" % (k, sc.nlabels[k])}
                    continue
                ref, nmax = ref_sparse(np.array(f["row"]), np.array(f["col"]), np.array(f["val"], np.float32))
                got = lab_all[pos:pos + n] - off
                if sc.nlabels[k] != nmax:
                    viol = {"class": "count-differs", "key": "SparseScan.lmlabel:count-differs",
                            "detail": "frame %d of %d: %d labels reported, the frame has %d local maxima (work buffers are reused from frame to frame)" %
                                      (k, len(frames), sc.nlabels[k], nmax)}
                    break
                if not np.array_equal(got, ref):
                    viol = {"class": "labels-differ", "key": "SparseScan.lmlabel:labels-differ",
                            "detail": "frame %d of %d: labels differ from steepest ascent on that frame" % (k, len(frames))}
                    break
                pos += n
                if desc["countall"]:
                    off += nmax
        nrep = 0
        if viol is None and any(len(f["val"]) for f in frames):
            # the same SparseScan object labelled again with other options (smoothed signal, then raw again ...): every call
            # must give what a fresh object gives for those options, and must leave the stored intensities alone
            import io, contextlib
            r2 = random.Random(len(frames) * 104729 + sum(len(f["val"]) for f in frames))
            inten0 = np.array(sc.intensity, copy=True)
            for _ in range(r2.randint(1, 3)):
                sm, ca = r2.random() < 0.6, r2.random() < 0.5
                with contextlib.redirect_stdout(io.StringIO()):
                    for q in range(len(frames)):
                        sc.getframe(q)              # frames are looked at between the labellings
                    sc.lmlabel(smooth=sm, countall=ca)
                    fresh = self.sf.SparseScan(p, "1.1")
                    fresh.lmlabel(smooth=sm, countall=ca)
                    stale = None
                    for q in range(len(frames)):
                        fq = sc.getframe(q)
                        if fq is not None and not np.array_equal(np.asarray(fq.pixels["labels"]), np.asarray(sc.labels)[sc.ipt[q]:sc.ipt[q + 1]]):
                            stale = q
                            break
                nrep += 1
                if stale is not None:
                    viol = {"class": "history-dependent", "key": "SparseScan.lmlabel:history-dependent",
                            "detail": "after labelling the scan again, getframe(%d) still hands out the labels of the earlier labelling" % stale}
                    break
                if not np.array_equal(np.asarray(sc.labels), np.asarray(fresh.labels)) or \
                        not np.array_equal(np.asarray(sc.nlabels), np.asarray(fresh.nlabels)):
                    viol = {"class": "history-dependent", "key": "SparseScan.lmlabel:history-dependent",
                            "detail": "call %d on one SparseScan (smooth=%s, countall=%s): labels differ from those of a fresh object "
                                      "labelled with the same options" % (nrep + 1, sm, ca)}
                    break
                if not np.array_equal(np.asarray(sc.intensity), inten0):
                    viol = {"class": "history-dependent", "key": "SparseScan.lmlabel:history-dependent",
                            "detail": "call %d on one SparseScan (smooth=%s): the stored intensities were changed" % (nrep + 1, sm)}
                    break
        nobj = 0
        if viol is None:
            # the same frames as sparse_frame objects labelled one after the other with sparseframe.sparse_localmax (largest
            # first or in scan order, some of them twice under another label name); all labels are read afterwards
            import io, contextlib
            rr = random.Random(len(frames) * 7919 + sum(len(f["val"]) for f in frames))
            objs = []
            changed = {}
            order = [k for k, f in enumerate(frames) if len(f["val"])]
            if rr.random() < 0.5:
                order.sort(key=lambda k: -len(frames[k]["val"]))
            with contextlib.redirect_stdout(io.StringIO()):
                for k in order:
                    f = frames[k]
                    idt = rr.choice([np.float32, np.float32, np.float64])
                    fr = self.sf.sparse_frame(np.array(f["row"], np.uint16), np.array(f["col"], np.uint16), (desc["ns"], desc["nf"]),
                                              pixels={"intensity": np.array(f["val"], idt)})
                    nl = self.sf.sparse_localmax(fr)
                    if rr.random() < 0.4 and fr.nnz > 2:
                        # the frame's intensities change (corrected in place, or replaced through set_pixels) and it is
                        # labelled again under the same name: labels and advertised count follow the values it holds now
                        newv = np.array(f["val"], idt)[rr.sample(range(fr.nnz), fr.nnz)]
                        if rr.random() < 0.5:
                            fr.pixels["intensity"][:] = newv
                        else:
                            fr.set_pixels("intensity", newv)
                        nl = self.sf.sparse_localmax(fr)
                        changed[id(fr)] = np.array(newv, np.float32)
                    objs.append((k, fr, "localmax", nl))
                    if rr.random() < 0.3:
                        nl2 = self.sf.sparse_localmax(fr, label_name="again")
                        objs.append((k, fr, "again", nl2))
                    if rr.random() < 0.4 and fr.nnz > 1:
                        # a frame derived from this one (the brighter half of its pixels) is labelled as well: what the
                        # parent advertises about its own labels must not change
                        child = fr.threshold(float(np.median(fr.pixels["intensity"])))
                        if child.nnz:
                            self.sf.sparse_localmax(child)
            nobj = len(objs)
            for k, fr, lname, nl in objs:
                f = frames[k]
                ref, nmax = ref_sparse(np.array(f["row"]), np.array(f["col"]), changed.get(id(fr), np.array(f["val"], np.float32)))
                if nl != nmax or not np.array_equal(np.asarray(fr.pixels[lname]), ref) or fr.meta.get(lname, {}).get("nlabel") != nmax:
                    viol = {"class": "labels-differ", "key": "sparse_localmax:labels-differ",
                            "detail": "sparse_localmax on %d frame objects one after the other: the labels '%s' of frame %d, read after the "
                                      "last call, are not steepest ascent on that frame (%d labels reported, %d maxima)" %
                                      (len(objs), lname, k, nl, nmax)}
                    break
        nbig = 0
        if viol is None:
            rb = random.Random(len(frames) * 31 + sum(len(f["val"]) for f in frames) + 5)
            if rb.random() < 0.25:
                # an unsorted frame of a detector-sized image (more than 65536 pixels) is sorted with sort() and labelled
                import io, contextlib
                bs0, bs1 = rb.choice([(300, 420), (512, 384), (1024, 130)])
                gb = np.random.default_rng(rb.getrandbits(32))
                npx = 400
                flat = gb.choice(bs0 * bs1, npx, replace=False)
                # clusters: neighbours of the drawn pixels too, so that there is something to climb
                rr_, cc_ = np.unravel_index(flat, (bs0, bs1))
                rr_ = np.concatenate([rr_, np.minimum(rr_ + 1, bs0 - 1), rr_])
                cc_ = np.concatenate([cc_, cc_, np.minimum(cc_ + 1, bs1 - 1)])
                key = np.unique(rr_.astype(np.int64) * bs1 + cc_)
                rr_, cc_ = np.divmod(key, bs1)
                vals_ = gb.permutation(len(key)).astype(np.float32) + 1
                pm = gb.permutation(len(key))
                with contextlib.redirect_stdout(io.StringIO()):
                    fb = self.sf.sparse_frame(rr_[pm].astype(np.uint16), cc_[pm].astype(np.uint16), (bs0, bs1),
                                              pixels={"intensity": vals_[pm].copy()})
                    fb.sort()
                    nlb = self.sf.sparse_localmax(fb)
                nbig = 1
                refb, nmaxb = ref_sparse(rr_, cc_, vals_)
                if not np.array_equal(np.asarray(fb.row), rr_) or not np.array_equal(np.asarray(fb.col), cc_) or \
                        not np.array_equal(np.asarray(fb.pixels["intensity"]), vals_) or nlb != nmaxb or \
                        not np.array_equal(np.asarray(fb.pixels["localmax"]), refb):
                    viol = {"class": "labels-differ", "key": "sparse_localmax:labels-differ",
                            "detail": "an unsorted frame of a %dx%d image, sorted with sort() and labelled: not in row-major order, or %d "
                                      "labels for %d local maxima, or other labels than steepest ascent" % (bs0, bs1, nlb, nmaxb)}
        meas = enginea.run_measures(st, cfg)
        meas["detector_sized_frames_sorted_and_labelled"] = nbig
        meas["frame_objects_labelled_in_sequence"] = nobj
        meas["relabelling_calls_on_one_scan"] = nrep
        meas["variant"] = {"SparseScan.lmlabel": 1}
        meas["image_kind"] = {"scan": 1}
        return {"digest": enginea.sha(st["digest"], lab_all), "sig": enginea.sha(repr(frames)), "nontrivial": True,
                "viol": viol, "measures": meas}

    def execute(self, desc, ctx, want_switches=False):
        if desc["entry"] == "SparseScan.lmlabel":
            return self.exec_scan(desc, ctx)
        sim = ctx.sim
        cfg = desc["cfg"]
        entry = desc["entry"]
        gs = cfg["garbage_seed"]
        if entry == "localmaxlabel":
            ns, nf = desc["ns"], desc["nf"]
            im = np.array(desc["image"], np.float32).reshape(ns, nf)
            lab = enginea.garbage_array((ns, nf), np.int32, gs + 1, desc["gstyle"], -3, 60)
            wrk = enginea.garbage_array((ns, nf), np.uint8, gs + 2, desc["gstyle"], 0, 10)
            enginea.apply_cfg(sim, cfg, strict=1, track_conflicts=1, pct_est=8 * ns * nf,
                              # following a pixel to its maximum is linear in the path length: a snake-like ridge makes it quadratic
                              step_cap=8 * (ns * nf) ** 2 + 200 * ns * nf + 100000,
                              replay=desc.get("replay"))
            sim.begin_run()
            sim.register(im, simlib.R, 1)
            sim.register(lab, simlib.RW, 2)
            sim.register(wrk, simlib.RW, 3)
            ab, ret = sim.call(entry, [("p", im), ("p", lab), ("p", wrk), ("i", ns), ("i", nf)])
            st = sim.stats()
            viol = enginea.viol_from_stats(st, entry, {1: "data", 2: "labels", 3: "wrk"})
            if viol is None:
                ref, nmax = ref_dense(im)
                if ret != nmax:
                    viol = {"class": "count-differs", "key": entry + ":count-differs",
                            "detail": "returned %d labels, image has %d interior local maxima (team %s)" %
                                      (ret, nmax, st["team_hist"])}
                elif not np.array_equal(lab, ref):
                    bad = np.argwhere(lab != ref)
                    viol = {"class": "labels-differ", "key": entry + ":labels-differ",
                            "detail": "%d pixels differ from steepest ascent, first at %s: got %d want %d (team %s, %s)" %
                                      (len(bad), bad[0].tolist(), lab[tuple(bad[0])], ref[tuple(bad[0])],
                                       st["team_hist"], cfg["strategy"])}
            out = lab
            wdig = enginea.sha(im)
            nontrivial = any(int(k) > 1 for k in st["team_hist"])
        else:
            row = np.array(desc["row"], np.uint16)
            col = np.array(desc["col"], np.uint16)
            val = np.array(desc["val"], np.float32)
            n = len(val)
            MV = enginea.garbage_array((n,), np.float32, gs + 1, desc["gstyle"])
            iMV = enginea.garbage_array((n,), np.int32, gs + 2, desc["gstyle"], -2, n + 2)
            lab = enginea.garbage_array((n,), np.int32, gs + 3, desc["gstyle"], -2, n + 2)
            enginea.apply_cfg(sim, cfg, strict=1, track_conflicts=0, step_cap=8 * n * n + 400 * n + 100000)
            sim.begin_run()
            for k, (a, perm) in enumerate([(val, simlib.R), (row, simlib.R), (col, simlib.R), (MV, simlib.RW),
                                           (iMV, simlib.RW), (lab, simlib.RW)]):
                sim.register(a, perm, k + 1)
            ab, ret = sim.call(entry, [("p", val), ("p", row), ("p", col), ("i", n), ("p", MV), ("p", iMV), ("p", lab)])
            st = sim.stats()
            viol = enginea.viol_from_stats(st, entry, {1: "v", 2: "i", 3: "j", 4: "MV", 5: "iMV", 6: "labels"})
            if viol is None:
                ref, nmax = ref_sparse(row, col, val)
                if ret != nmax:
                    viol = {"class": "count-differs", "key": entry + ":count-differs",
                            "detail": "returned %d labels, frame has %d local maxima" % (ret, nmax)}
                elif not np.array_equal(lab, ref):
                    bad = np.nonzero(lab != ref)[0]
                    viol = {"class": "labels-differ", "key": entry + ":labels-differ",
                            "detail": "%d pixels differ from sparse steepest ascent, first k=%d got %d want %d" %
                                      (len(bad), bad[0], lab[bad[0]], ref[bad[0]])}
                else:
                    # same partition as the dense kernel's on the same pixels (absent pixels lower than all present)
                    r0, c0 = int(row.min()), int(col.min())
                    hs, ws = int(row.max()) - r0 + 3, int(col.max()) - c0 + 3
                    lowest = float(val.min())
                    dense = (lowest - (1.0 + np.arange(hs * ws)) * max(1.0, abs(lowest) * 2.0 ** -20)).astype(np.float32).reshape(hs, ws)
                    dense[row.astype(int) - r0 + 1, col.astype(int) - c0 + 1] = val
                    dref, _ = ref_dense(dense)
                    dl = dref[row.astype(int) - r0 + 1, col.astype(int) - c0 + 1]
                    if canon(dl) != canon(lab):
                        viol = {"class": "sparse-dense-partition", "key": entry + ":sparse-dense-partition",
                                "detail": "sparse partition differs from the dense partition of the same pixels"}
            nconc = 0
            if viol is None and desc.get("concurrent"):
                c2 = desc["concurrent"]
                frames = [(row, col, val), (np.array(c2["row"], np.uint16), np.array(c2["col"], np.uint16), np.array(c2["val"], np.float32))]
                specs = [(entry, {"v": v_, "i": r_, "j": c_, "nnz": len(v_), "MV": [len(v_)], "iMV": [len(v_)], "labels": [len(v_)]},
                          {"v": "in", "i": "in", "j": "in", "MV": "work", "iMV": "work", "labels": "out"}) for r_, c_, v_ in frames]
                outs, stc = kernels.run_concurrent(sim, specs, c2["ccfg"], gstyle=desc["gstyle"], pct_est=max(50, 40 * (n + len(c2["val"]))))
                nconc = 1
                v = enginea.viol_from_stats(stc, entry, {})
                if v is not None:
                    v["key"] = entry + ":concurrent:" + v["class"]
                    viol = v
                else:
                    for q, ((r_, c_, v_), (ret_q, arrs)) in enumerate(zip(frames, outs)):
                        rq, nq = ref_sparse(r_, c_, v_)
                        if ret_q != nq or not np.array_equal(arrs["labels"], rq):
                            viol = {"class": "not-reentrant", "key": entry + ":not-reentrant",
                                    "detail": "two Python threads label two different frames at the same time: caller %d gets %d labels "
                                              "(frame has %d maxima) or other labels than steepest ascent gives" % (q, ret_q, nq)}
                            break
            out = lab
            wdig = enginea.sha(row, col, val)
            nontrivial = n >= 2
        res = {"digest": enginea.sha(st["digest"], out, ret, st["steps"]),
               "sig": "%s/%s/%x" % (wdig, sorted(st["team_hist"].items()), st["conflict_sig"]),
               "nontrivial": nontrivial, "viol": viol, "measures": enginea.run_measures(st, cfg)}
        res["measures"]["variant"] = {entry: 1}
        res["measures"]["concurrent_frame_pairs"] = 1 if (entry != "localmaxlabel" and desc.get("concurrent") and viol is None) else 0
        res["measures"]["image_kind"] = {desc["kind"]: 1}
        if want_switches:
            res["switches"] = sim.switches()
            res["log_overflow"] = st["log_overflow"]
        return res

    # ------------------------------------------------------------ minimisation
    def minimise(self, desc, viol, ctx):
        if desc["entry"] != "localmaxlabel":
            return desc
        r = self.execute(desc, ctx, want_switches=True)
        if r.get("log_overflow") or not r.get("viol"):
            return desc
        sw = [list(x) for x in r["switches"]]
        cls = viol["class"]

        def test(sub):
            d = dict(desc)
            d["replay"] = sub
            rr = self.execute(d, ctx)
            return rr.get("viol") is not None and rr["viol"]["class"] == cls

        if not test(sw):
            return desc
        small = enginea.ddmin(sw, test)
        d = dict(desc)
        d["replay"] = small

        # then the image: crop while the same class persists under the minimised schedule
        def fails(dd):
            rr = self.execute(dd, ctx)
            return rr.get("viol") is not None and rr["viol"]["class"] == cls
        d = enginea.shrink_image_desc(d, fails, min_side=3)
        d["replay_note"] = "switches are [team index, step within team, thread]; between listed switches the running " \
                           "thread continues; when it blocks or ends the lowest-numbered runnable thread runs"
        return d


CHECK = C13()
if __name__ == "__main__":
    sys.exit(runner.main(CHECK))
