#!/venv/bin/python
"""
C14 - sparse images round-trip and overlap counting is exact.

Engine A (simomp).  Surfaces: mask_to_coo has two `omp parallel for` loops that communicate through shared
prefix sums; every kernel writes into caller supplied np.empty buffers; overlaps_linear / overlaps_matrix keep
their buffers ACROSS calls (stale content from the previous pair of frames is the normal case).  One run is a
short history on the instrumented module with np.empty inside ImageD11.sparseframe returning seed garbage:
  roundtrip : from_data_mask / from_data_cut -> sorted, duplicate free, to_dense(...) == selected pixels
              (also into a dirty out= buffer); strict kernel calls of mask_to_coo / tosparse_* under team schedules
  sort      : a shuffled frame, sort(), order established and (row, col, value) triples kept together
  overlaps  : a sequence of labelled frame pairs through ONE overlaps_linear and ONE overlaps_matrix object
              (bigger then smaller frames) and through overlaps(); all answers are kept and checked against a
              Counter of label pairs AFTER the last call (as properties.pairrow consumes them)
"""
from __future__ import print_function
import os, sys, random, io, contextlib, collections
sys.path.insert(0, os.path.dirname(os.path.dirname(os.path.abspath(__file__))))
import numpy as np
from common import runner, enginea, kernels
from checks.c01 import NPProxy


def rand_mask(rnd, g, ns, nf):
    mode = rnd.choice(["rand", "rand", "full", "single", "corners", "emptyrows", "firstlast"])
    if mode == "rand":
        m = g.random((ns, nf)) < rnd.choice([0.05, 0.3, 0.7])
    elif mode == "full":
        m = np.ones((ns, nf), bool)
    elif mode == "single":
        m = np.zeros((ns, nf), bool)
        m[rnd.randrange(ns), rnd.randrange(nf)] = True
    elif mode == "corners":
        m = g.random((ns, nf)) < 0.1
        m[0, 0] = m[0, -1] = m[-1, 0] = m[-1, -1] = True
    elif mode == "emptyrows":
        m = g.random((ns, nf)) < 0.6
        m[::2] = False
    else:
        m = np.zeros((ns, nf), bool)
        m[0, :] = True
        m[-1, :] = True
        m[:, 0] = True
        m[:, -1] = True
    if not m.any():
        m[rnd.randrange(ns), rnd.randrange(nf)] = True
    return m


def labelled_frame(rnd, g, ns, nf, base=None):
    """sorted (row, col, labels 1..N) ; N = number of labels"""
    if base is not None and rnd.random() < 0.5:
        r, c = base
        k = g.random(len(r)) < rnd.choice([0.3, 0.7, 1.0])
        if not k.any():
            k[-1] = True
        r, c = r[k], c[k]
    else:
        m = rand_mask(rnd, g, ns, nf)
        r, c = np.nonzero(m)
    n = rnd.choice([1, 2, 3, 7, len(r)])
    n = max(1, min(n, len(r), 300))  # overlaps_matrix is quadratic in the number of labels by design
    lab = g.integers(1, n + 1, len(r)).astype(np.int32)
    lab[rnd.randrange(len(r))] = n  # label at capacity
    return r.astype(np.uint16), c.astype(np.uint16), lab, n


def pair_counter(r1, c1, l1, r2, c2, l2):
    d = {(int(a), int(b)): int(l) for a, b, l in zip(r1, c1, l1)}
    cnt = collections.Counter()
    for a, b, l in zip(r2, c2, l2):
        k = d.get((int(a), int(b)))
        if k is not None:
            cnt[(k, int(l))] += 1
    return cnt


class C14(object):
    id = "C14"
    engine = "simomp"
    time_keys = {"steps": "scheduler steps (one per instrumented access, GOMP entry or allocator call)"}
    fault_keys = ["switches", "realloc_moved", "realloc_stay", "alloc", "free", "parallel_runs", "np_empty_garbage_buffers"]
    tiers = {"quick": {"runs": 12000, "budget_s": 60, "selftest_every": 50, "fresh_selftest": 8},
             "thorough": {"runs": 8000000, "budget_s": 800, "selftest_every": 300, "fresh_selftest": 16}}
    rule = ("one run = a short history (roundtrip | sort | a sequence of 2..5 overlap calls on reused cache objects) on "
            "the instrumented module with garbage-filled np.empty buffers, team 1..16 and a seeded interleaving of the "
            "mask_to_coo loops; distinct = distinct (scenario, input digest, team); non-trivial = at least two selected "
            "pixels / one shared pixel; also: strict kernel calls incl. uint32 counts beyond 2^24, concurrent tosparse callers, frames anywhere in a 65534^2 image, Fortran/strided data and masks, NaN pixels, buffer reuse after conversion, 2-3 Python threads under the Python scheduler, pairrow on an HDF5-backed scan with empty frames, frames through an HDF5 group used before, fractional cuts, a peak of more than 65535 shared pixels")
    components = {"real": enginea.COMPONENTS_REAL + ["mask_to_coo, tosparse_u16/u32/f32, sparse_is_sorted, sparse_overlaps, "
                                                       "compress_duplicates, coverlaps (machine code)",
                                                       "ImageD11.sparseframe: sparse_frame, from_data_mask, from_data_cut, "
                                                       "to_dense, sort, overlaps_linear, overlaps_matrix, overlaps (unchanged Python)"],
                  "stub": enginea.COMPONENTS_STUB + ["numpy.empty as seen by ImageD11.sparseframe (garbage filled)"]}
    assumptions = ["masks are bool or uint8 (any non-zero value selects), data uint16 / uint32 / float32",
                   "frames handed to the overlap routines are sorted, duplicate free, labelled 1..N"]

    def prepare(self, ctx):
        enginea.prepare_sim(ctx, import_imaged11=True)
        kernels.check_against_pyf()
        from ImageD11 import sparseframe
        self.sf = sparseframe
        self.proxy = NPProxy(np)
        sparseframe.np = self.proxy

    def gen(self, rs, ctx):
        rnd = random.Random(rs)
        scen = rnd.choice(["roundtrip", "roundtrip", "sort", "overlaps", "overlaps", "kernel", "kernel", "pythreads", "pairrow"])
        wide = rnd.random() < (0.03 if ctx.tier == "thorough" else 0.004)
        ns, nf = rnd.choice([1, 2, 3, 5, 8, 13, 24]), rnd.choice([1, 2, 4, 7, 16, 33])
        if wide:
            ns, nf = rnd.choice([(2, 65534), (3, 40000), (65534, 2)])
        if scen in ("pythreads", "pairrow"):
            ns, nf = min(ns, 13), min(nf, 16)
        return {"entry": "sparse/" + scen, "scen": scen, "ns": ns, "nf": nf, "wseed": rnd.getrandbits(48),
                "strategy": rnd.choice(["random", "random", "pct", "rr", "rtc"]), "p_inv": rnd.choice([1, 2, 4, 16]),
                "quantum": rnd.choice([1, 2, 5]), "pct_d": rnd.choice([1, 2, 3]), "sseed": rnd.getrandbits(48),
                "cfg": enginea.draw_cfg(rnd, max_team=16), "gstyle": rnd.choice([0, 1])}

    def describe(self, desc):
        return {k: desc[k] for k in ("scen", "ns", "nf", "wseed", "cfg")}

    def execute(self, desc, ctx):
        conc_pairs = 0
        layouts = {}
        sim = ctx.sim
        sf = self.sf
        cfg = desc["cfg"]
        rnd = random.Random(desc["wseed"])
        g = np.random.default_rng(desc["wseed"])
        ns, nf, scen = desc["ns"], desc["nf"], desc["scen"]
        viol = None
        digs = []
        nontrivial = False
        sts = []
        self.proxy.seed = cfg["garbage_seed"] & 0xFFFFFFFF
        self.proxy.count = 0

        def begin():
            enginea.apply_cfg(sim, cfg, strict=0, track_conflicts=0, pct_est=max(30, 6 * ns * nf // cfg["team"]),
                              step_cap=4000000000)
            sim.begin_run()

        def V(cls, detail):
            return {"class": cls, "key": "sparse:%s:%s" % (scen, cls), "detail": detail}

        def check_sorted(spf, what):
            key = spf.row.astype(np.int64) * 70000 + spf.col
            if len(key) > 1 and not (np.diff(key) > 0).all():
                return V("not-sorted", "%s: coordinates are not in strictly increasing row-major order" % what)
            with contextlib.redirect_stdout(io.StringIO()):
                if sf.cImageD11.sparse_is_sorted(spf.row, spf.col) != 0:
                    return V("not-sorted", "%s: sparse_is_sorted reports a problem" % what)
            return None

        hdf_trips = [0]
        big_shared = [0]
        if scen in ("roundtrip", "sort"):
            dt = rnd.choice([np.uint16, np.float32, np.uint16])
            if dt == np.float32:
                data = (g.random((ns, nf)) * 1000).astype(np.float32)
            else:
                data = g.integers(0, 65535, (ns, nf)).astype(np.uint16)
            data[g.random((ns, nf)) < 0.2] = 0
            m = rand_mask(rnd, g, ns, nf)
            mval = rnd.choice([1, 1, 255, 2, 128, 6])
            mask = m.astype(bool) if rnd.random() < 0.4 else (m.astype(np.uint8) * mval)

            def relayout(a, mode):
                # the same logical array in another memory layout: Fortran order or a strided view of a wider buffer
                if mode == "f":
                    return np.asfortranarray(a)
                if mode == "view":
                    big = np.zeros((a.shape[0], 2 * a.shape[1] + 1), a.dtype)
                    big[:, 1::2] = a
                    return big[:, 1::2]
                return a
            lay_d, lay_m = rnd.choice(["c", "c", "f", "view"]), rnd.choice(["c", "c", "f", "view"])
            data, mask = relayout(data, lay_d), relayout(mask, lay_m)
            layouts["%s/%s" % (lay_d, lay_m)] = 1
            begin()
            with contextlib.redirect_stdout(io.StringIO()):
                if scen == "roundtrip":
                    route = rnd.choice(["mask", "cut", "cut"])
                    if route == "mask":
                        spf = sf.from_data_mask(mask, data, {"a": 1})
                        selected = m
                    else:
                        cut = rnd.choice([0, 1, 500, 40000, int(data[rnd.randrange(ns), rnd.randrange(nf)])])
                        if rnd.random() < 0.3:
                            cut = cut + rnd.choice([0.5, 0.5, 0.75, 0.25, 0.9])      # thresholds such as mean + 3 sigma are not whole numbers
                            if int(cut) + 1 < 65535:
                                data[rnd.randrange(ns), rnd.randrange(nf)] = int(cut) + 1  # a pixel just above the threshold
                        if data.dtype == np.float32 and rnd.random() < 0.25:
                            # dead pixels of processed data: not-a-number is not above any cut
                            for _ in range(rnd.randint(1, 3)):
                                data[rnd.randrange(ns), rnd.randrange(nf)] = np.nan
                        dm = None if rnd.random() < 0.3 else (mask if mask.dtype == np.uint8 else mask.astype(np.uint8))
                        selected = (data > cut) & (m if dm is not None else True)
                        if selected.sum() == 0:  # the library represents an empty frame as None: not part of the statement
                            cut = 0
                            data[m] = np.fmax(data[m], 1)
                            selected = (data > cut) & (m if dm is not None else True)
                        try:
                            spf = sf.from_data_cut(data, cut, detectormask=dm)
                        except Exception as e:
                            spf = None
                            viol = V("raises", "from_data_cut on a selection of %d pixels raised %s: %s (mask values %s)"
                                     % (int(selected.sum()), type(e).__name__, e, np.unique(mask)[:4]))
                    if spf is None:
                        pass
                    elif selected.sum() == 0:
                        if spf.nnz != 0:
                            viol = V("wrong-pixels", "nothing selected but %d pixels returned" % spf.nnz)
                    else:
                        viol = check_sorted(spf, route)
                        if viol is None:
                            r, c = np.nonzero(selected)
                            if spf.nnz != len(r) or (spf.row != r).any() or (spf.col != c).any():
                                viol = V("wrong-pixels", "%s: selected %d pixels, sparse frame has %d (or other coordinates); "
                                                         "mask values %s" % (route, len(r), spf.nnz, np.unique(mask)[:4]))
                            elif (spf.pixels["intensity"] != data[selected]).any():
                                viol = V("wrong-values", "%s: pixel values do not travel with their coordinates" % route)
                        if viol is None:
                            want = np.where(selected, data, 0).astype(data.dtype)
                            if rnd.random() < 0.5:
                                # the caller reads the next frame into the same image buffer: the sparse frame made from the
                                # previous content must not change with it
                                data[...] = 7
                                if (spf.pixels["intensity"] != want[selected]).any():
                                    viol = V("roundtrip-differs", "%s: after the caller reused its image buffer the frame no longer holds "
                                                                  "the pixels that were selected" % route)
                            dense = spf.to_dense("intensity")
                            out = enginea.garbage_array((ns, nf), data.dtype, cfg["garbage_seed"] + 5, 1, 1, 9)
                            if rnd.random() < 0.3:
                                out = np.asfortranarray(out)       # e.g. one image of a Fortran-ordered stack
                            dense2 = spf.to_dense("intensity", out=out)
                            if np.asarray(dense2).shape == out.shape and (np.asarray(out) != np.asarray(dense2)).any():
                                viol = V("roundtrip-differs", "to_dense(out=...) returns the image but does not leave it in the "
                                                              "caller's array")
                            if (np.asarray(dense) != want).any():
                                viol = V("roundtrip-differs", "to_dense(from_data_%s(...)) differs from the selected pixels" % route)
                            elif (np.asarray(dense2) != want).any():
                                viol = V("roundtrip-differs", "to_dense(out=previously used buffer) keeps old content: the "
                                                              "result is not the selected pixels")
                        if viol is None and rnd.random() < 0.3:
                            # the frame travels through an HDF5 group (to_hdf_group / from_hdf_group); the group is new, or held
                            # another frame of as many pixels before (re-processing into the same output file)
                            import h5py
                            p5 = os.path.join(ctx.scratch, "c14_frame_%d.h5" % os.getpid())
                            reuse = rnd.random() < 0.6
                            try:
                                with h5py.File(p5, "w") as h5:
                                    grp = h5.require_group("frame")
                                    if reuse:
                                        prev = sf.sparse_frame((ns - 1 - spf.row[::-1]).astype(spf.row.dtype), (nf - 1 - spf.col[::-1]).astype(spf.col.dtype),
                                                               (ns, nf), pixels={"intensity": (spf.pixels["intensity"][::-1] + 1).astype(spf.pixels["intensity"].dtype)})
                                        prev.to_hdf_group(grp)
                                    spf.to_hdf_group(grp)
                                with h5py.File(p5, "r") as h5:
                                    back = sf.from_hdf_group(h5["frame"])
                                bd = np.asarray(back.to_dense("intensity"))
                                if back.nnz != spf.nnz or (back.row != spf.row).any() or (back.col != spf.col).any() or (bd != want).any():
                                    viol = V("roundtrip-differs", "%s: the frame read back from an HDF5 group (%s) is not the frame that was "
                                                                  "written: %d of %d pixels of the dense image differ" %
                                             (route, "which held another frame of as many pixels before" if reuse else "new",
                                              int((bd != want).sum()) if bd.shape == want.shape else -1, want.size))
                            except Exception as e:
                                if runner.is_harness_exception(e):
                                    raise
                                viol = V("raises", "to_hdf_group / from_hdf_group raised %s: %s" % (type(e).__name__, e))
                            finally:
                                if os.path.exists(p5):
                                    os.remove(p5)
                            hdf_trips[0] += 1
                        nontrivial = selected.sum() >= 2
                    if spf is not None:
                        digs.append(enginea.sha(spf.row, spf.col, spf.pixels.get("intensity", np.zeros(0))))
                else:
                    r, c = np.nonzero(m)
                    vals = data[m].astype(np.float32)
                    extra = np.arange(len(r), dtype=np.int32)
                    p = g.permutation(len(r))
                    spf = sf.sparse_frame(r[p].astype(np.uint16), c[p].astype(np.uint16), (ns, nf),
                                          pixels={"intensity": vals[p].copy(), "tag": extra[p].copy()})
                    try:
                        seq = rnd.random() < 0.4
                        if seq:
                            # sort, put it into another order in place, sort again: the order must be re-established
                            spf.sort()
                            if rnd.random() < 0.5:
                                spf.sort_by("tag")
                            else:
                                spf.reorder(g.permutation(len(r)))
                            spf.sort()
                            viol = check_sorted(spf, "sort() after sort(), reorder, ")
                            if viol is None and ((spf.row != r).any() or (spf.col != c).any() or
                                                 (spf.pixels["intensity"] != vals).any() or (spf.pixels["tag"] != extra).any()):
                                viol = V("sort-detaches-values", "sort() after reorder: triples were not kept together")
                        elif rnd.random() < 0.7:
                            spf.sort()
                            viol = check_sorted(spf, "sort()")
                            if viol is None and ((spf.row != r).any() or (spf.col != c).any() or
                                                 (spf.pixels["intensity"] != vals).any() or (spf.pixels["tag"] != extra).any()):
                                viol = V("sort-detaches-values", "sort(): (row, col, value) triples were not kept together")
                        else:
                            spf.sort_by("tag")
                            if ((spf.row != r).any() or (spf.col != c).any() or (spf.pixels["intensity"] != vals).any()):
                                viol = V("sort-detaches-values", "sort_by(): rows/cols/values not permuted together")
                    except Exception as e:
                        viol = V("sort-raises", "sorting an unsorted frame raised %s: %s" % (type(e).__name__, e))
                    nontrivial = len(r) >= 2
                    digs.append(enginea.sha(spf.row, spf.col))
            sts.append(sim.stats())
        elif scen == "pairrow":
            # a scan (HDF5 file -> SparseScan -> cplabel) whose frames, taken in omega order, are paired by
            # sinograms.properties.pairrow; some frames are empty.  Every pair of consecutive non-empty frames must be
            # reported with exactly its shared-pixel counts, and nothing else
            import h5py
            from ImageD11.sinograms import properties as sprops
            nfr = rnd.randint(2, 7)
            ims = []
            for q in range(nfr):
                im = (g.random((ns, nf)) * 100).astype(np.float32) * rand_mask(rnd, g, ns, nf)
                if q and rnd.random() < 0.5:
                    im = np.where(g.random((ns, nf)) < 0.6, ims[-1], im).astype(np.float32)     # shares pixels with the previous one
                if rnd.random() < 0.3:
                    im[:] = 0                                                                   # an empty frame
                ims.append(im)
            omega = g.permutation(nfr).astype(float) * rnd.choice([1.0, 0.25])                # frames are not stored in omega order
            p = os.path.join(ctx.scratch, "c14_scan_%d.h5" % os.getpid())
            if os.path.exists(p):
                os.remove(p)
            with h5py.File(p, "w") as h:
                grp = h.create_group("1.1")
                grp.attrs["nframes"], grp.attrs["shape0"], grp.attrs["shape1"] = nfr, ns, nf
                rr_, cc_ = zip(*[np.nonzero(im > 0) for im in ims])
                grp["row"] = np.concatenate(rr_).astype(np.uint16)
                grp["col"] = np.concatenate(cc_).astype(np.uint16)
                grp["intensity"] = np.concatenate([im[im > 0] for im in ims]).astype(np.float32)
                grp["nnz"] = np.array([int((im > 0).sum()) for im in ims], np.int32)
                grp["measurement/rot"] = omega
            begin()
            w0 = rnd.randint(1, nfr - 1) if (rnd.random() < 0.4 and nfr > 2) else 0
            if w0 and not any((im > 0).any() for im in ims[:w0]):
                w0 = 0
            with contextlib.redirect_stdout(io.StringIO()):
                if w0:
                    # only the frames from w0 on are loaded (the dataset object does this for split scans)
                    sc = sf.SparseScan(p, "1.1::[%d:%d]" % (w0, nfr)) if rnd.random() < 0.5 else sf.SparseScan(p, "1.1", start=w0, n=nfr - w0)
                    ims, omega, nfr = ims[w0:], omega[w0:], nfr - w0
                    for q in range(nfr):
                        fq = sc.getframe(q)
                        rq, cq = np.nonzero(ims[q] > 0)
                        if (fq is None) != (len(rq) == 0) or (fq is not None and (not np.array_equal(fq.row, rq) or not np.array_equal(fq.col, cq)
                                                                               or not np.array_equal(fq.pixels["intensity"], ims[q][ims[q] > 0]))):
                            viol = V("roundtrip-differs", "SparseScan loaded from frame %d on: frame %d is not the frame that was stored" % (w0, q))
                            break
                else:
                    sc = sf.SparseScan(p, "1.1")
                sc.cplabel(threshold=0, countall=False)
                if "labels" not in sc.names:
                    sc.names.append("labels")
                pairs = sprops.pairrow(sc, 7)
            sts.append(sim.stats())
            order = np.argsort(omega)
            lab_of = []
            pos = 0
            for im in ims:
                nq = int((im > 0).sum())
                lab_of.append(np.asarray(sc.labels)[pos:pos + nq])
                pos += nq
            want_pairs = {}
            for a_, b_ in zip(order[:-1], order[1:]):
                if (ims[a_] > 0).any() and (ims[b_] > 0).any():
                    ra, ca = np.nonzero(ims[a_] > 0)
                    rb, cb = np.nonzero(ims[b_] > 0)
                    want_pairs[(7, int(a_), 7, int(b_))] = pair_counter(ra, ca, lab_of[a_], rb, cb, lab_of[b_])
            got_keys = set((int(k[0]), int(k[1]), int(k[2]), int(k[3])) for k in pairs)
            if viol is not None:
                pass
            elif got_keys != set(want_pairs):
                viol = V("overlaps-linear-wrong", "pairrow reports frame pairs %s; consecutive non-empty frames in omega order are %s "
                                                  "(empty frames: %s)" % (sorted(got_keys), sorted(want_pairs),
                                                                          [q for q in range(nfr) if not (ims[q] > 0).any()]))
            else:
                for k_, (npr, arr) in pairs.items():
                    kk = (int(k_[0]), int(k_[1]), int(k_[2]), int(k_[3]))
                    gotc = collections.Counter() if not npr else collections.Counter({(int(x[0]), int(x[1])): int(x[2]) for x in arr})
                    if gotc != want_pairs[kk] or npr != len(want_pairs[kk]):
                        viol = V("overlaps-linear-wrong", "pairrow, frames %s: reported %s, shared-pixel counts are %s" %
                                 (kk[1::2], dict(gotc), dict(want_pairs[kk])))
                        break
            nontrivial = any(len(v_) for v_ in want_pairs.values())
            digs.append(enginea.sha(sorted(got_keys), np.asarray(sc.labels)))
            if viol is None and not w0 and nfr >= 2:
                # the neighbouring row of the sinogram, scanned in the opposite sense (zig-zag), paired frame by frame at equal
                # omega with pairscans: every pair of non-empty frames at the same angle, with its shared-pixel counts
                ims2 = []
                perm2 = list(range(nfr))[::-1] if rnd.random() < 0.7 else list(g.permutation(nfr))
                for q2 in range(nfr):
                    src_ = ims[perm2[q2]]
                    im2 = np.where(g.random((ns, nf)) < 0.7, src_, 0).astype(np.float32)
                    if rnd.random() < 0.3:
                        im2[:] = 0
                    ims2.append(im2)
                omega2 = omega[perm2]
                p2 = os.path.join(ctx.scratch, "c14_scan2_%d.h5" % os.getpid())
                if os.path.exists(p2):
                    os.remove(p2)
                with h5py.File(p2, "w") as h:
                    grp = h.create_group("1.1")
                    grp.attrs["nframes"], grp.attrs["shape0"], grp.attrs["shape1"] = nfr, ns, nf
                    rr2, cc2 = zip(*[np.nonzero(im > 0) for im in ims2])
                    grp["row"] = np.concatenate(rr2).astype(np.uint16)
                    grp["col"] = np.concatenate(cc2).astype(np.uint16)
                    grp["intensity"] = np.concatenate([im[im > 0] for im in ims2]).astype(np.float32)
                    grp["nnz"] = np.array([int((im > 0).sum()) for im in ims2], np.int32)
                    grp["measurement/rot"] = omega2
                if any((im > 0).any() for im in ims2) and any((im > 0).any() for im in ims):
                    with contextlib.redirect_stdout(io.StringIO()):
                        sc2 = sf.SparseScan(p2, "1.1")
                        sc2.cplabel(threshold=0, countall=False)
                        if "labels" not in sc2.names:
                            sc2.names.append("labels")
                        sc2.sinorow = 8
                        pairs2 = sprops.pairscans(sc, sc2)
                    lab2_of, pos2 = [], 0
                    for im in ims2:
                        nq = int((im > 0).sum())
                        lab2_of.append(np.asarray(sc2.labels)[pos2:pos2 + nq])
                        pos2 += nq
                    want2 = {}
                    for i_ in range(nfr):
                        j_ = int(np.argmin(np.abs((omega2 % 360) - (omega[i_] % 360))))
                        if (ims[i_] > 0).any() and (ims2[j_] > 0).any():
                            ra, ca = np.nonzero(ims[i_] > 0)
                            rb, cb = np.nonzero(ims2[j_] > 0)
                            want2[(7, i_, 8, j_)] = pair_counter(ra, ca, lab_of[i_], rb, cb, lab2_of[j_])
                    got2 = {(int(k_[0]), int(k_[1]), int(k_[2]), int(k_[3])): v_ for k_, v_ in pairs2.items()}
                    if set(got2) != set(want2):
                        viol = V("overlaps-linear-wrong", "pairscans reports frame pairs %s; non-empty frames at equal omega are %s" %
                                 (sorted(got2), sorted(want2)))
                    else:
                        for kk, (npr, arr) in got2.items():
                            gotc = collections.Counter() if not npr else collections.Counter({(int(x[0]), int(x[1])): int(x[2]) for x in arr})
                            if gotc != want2[kk] or npr != len(want2[kk]):
                                viol = V("overlaps-linear-wrong", "pairscans, frames %s: reported %s, shared-pixel counts are %s" %
                                         (kk[1::2], dict(gotc), dict(want2[kk])))
                                break
        elif scen == "pythreads":
            # 2-3 Python threads (under the seeded Python scheduler, pre-emption at every source line of sparseframe.py)
            # convert their own images at the same time; the compiled kernels run on the instrumented module
            from pysched import pysched
            nthr = rnd.choice([2, 2, 3])
            same = rnd.random() < 0.7       # same shape and data type in every thread
            dt0 = rnd.choice([np.uint16, np.float32])
            jobs = []
            for t in range(nthr):
                a, b = (ns, nf) if (same or t == 0) else (max(1, ns - t), nf + t)
                dt = dt0 if same else rnd.choice([np.uint16, np.float32])
                d_t = (g.random((a, b)) * 1000).astype(dt)
                d_t[g.random((a, b)) < 0.2] = 0
                m_t = rand_mask(rnd, g, a, b)
                prog = [rnd.choice(["cut", "cut", "mask", "cut_nomask"]) for _ in range(rnd.randint(1, 3))]
                cuts = [rnd.choice([0, 1, 500, int(d_t[rnd.randrange(a), rnd.randrange(b)])]) for _ in prog]
                jobs.append((d_t, m_t, prog, cuts))
            results = [[] for _ in jobs]
            sched = pysched.Sched(desc.get("sseed", 1), strategy=desc.get("strategy", "random"), p_inv=desc.get("p_inv", 2),
                                  quantum=desc.get("quantum", 1), pct_d=desc.get("pct_d", 2), pct_est=60 * nthr, step_cap=400000,
                                  trace_files=[sf.__file__], replay=desc.get("replay"))

            def worker(t):
                d_t, m_t, prog, cuts = jobs[t]
                for op, cut in zip(prog, cuts):
                    sel = m_t if op == "mask" else (m_t & (d_t > cut) if op == "cut" else d_t > cut)
                    if not sel.any():
                        # the library represents an empty frame as None / refuses it: not part of the statement
                        results[t].append((op, cut, sel, None, None))
                        continue
                    if op == "mask":
                        spf = sf.from_data_mask(m_t, d_t, {"t": t})
                    elif op == "cut":
                        spf = sf.from_data_cut(d_t, cut, detectormask=m_t.astype(np.uint8))
                    else:
                        spf = sf.from_data_cut(d_t, cut)
                    dense = None if (spf is None or not sel.any()) else np.array(spf.to_dense("intensity"))
                    results[t].append((op, cut, sel, None if spf is None else (np.array(spf.row), np.array(spf.col),
                                                                               np.array(spf.pixels["intensity"])), dense))

            def main():
                ths = [sched.spawn(lambda t=t: worker(t), "py%d" % t) for t in range(nthr)]
                for th in ths:
                    sched.join(th)
                return ths
            enginea.apply_cfg(sim, dict(cfg, team=1), strict=0, track_conflicts=0, pct_est=100, step_cap=4000000000)
            sim.begin_run()
            ths = []
            try:
                with contextlib.redirect_stdout(io.StringIO()):
                    ths = sched.run(main) or []
            except pysched.Deadlock as e:
                viol = V("deadlock", str(e))
            except pysched.StepCap as e:
                viol = V("no-progress", str(e))
            sts.append(sim.stats())
            for t, th in enumerate(ths):
                if viol is None and getattr(th, "exc", None) is not None:
                    if runner.is_harness_exception(th.exc):
                        raise th.exc
                    viol = V("raises", "thread %d of %d: %s: %s" % (t, nthr, type(th.exc).__name__, th.exc))
            for t in range(nthr):
                if viol is not None:
                    break
                d_t = jobs[t][0]
                if len(results[t]) != len(jobs[t][2]):
                    viol = V("thread-incomplete", "thread %d finished %d of %d conversions" % (t, len(results[t]), len(jobs[t][2])))
                    break
                for op, cut, sel, got, dense in results[t]:
                    r, c = np.nonzero(sel)
                    if got is None:
                        if len(r):
                            viol = V("wrong-pixels", "%d Python threads: %s in thread %d returned nothing for %d selected pixels" % (nthr, op, t, len(r)))
                        continue
                    if len(got[0]) != len(r) or (got[0] != r).any() or (got[1] != c).any() or (got[2] != d_t[sel]).any() or \
                            (dense is not None and (dense != np.where(sel, d_t, 0)).any()):
                        viol = V("not-reentrant", "%d Python threads convert their own images at the same time (%s): thread %d's %s "
                                                  "frame is not its selected pixels (%d selected, %d returned)" %
                                 (nthr, "same shape and type" if same else "different shapes", t, op, len(r), len(got[0])))
                        break
            nontrivial = True
            digs.append(enginea.sha(sched.digest(), [[(x[3][0], x[3][1]) if x[3] else None for x in rs] for rs in results]))
            meas_py = {"py_steps": sched.steps, "py_switches": sched.switches, "py_threads": nthr}
        elif scen == "kernel":
            # strict kernel calls under team schedules
            m = rand_mask(rnd, g, ns, nf)
            nnz = int(m.sum())
            msk = m.astype(np.int8) * rnd.choice([1, 1, -1, 7])
            vals = {"msk": msk, "ns": ns, "nf": nf, "i": [nnz], "j": [nnz], "nnz": nnz, "w": [ns]}
            ret, arr, st = kernels.run_kernel(sim, "mask_to_coo", vals, {"msk": "in", "i": "out", "j": "out", "w": "work"}, cfg,
                                              gstyle=desc["gstyle"], pct_est=max(30, 4 * ns * nf // cfg["team"]), track_conflicts=1)
            sts.append(st)
            viol = enginea.viol_from_stats(st, "mask_to_coo", kernels.region_names("mask_to_coo"))
            r, c = np.nonzero(m)
            if viol is None and (ret != 0 or (arr["i"] != r).any() or (arr["j"] != c).any()):
                viol = V("wrong-pixels", "mask_to_coo (team %s): returned %d, coordinates differ from numpy.nonzero" % (st["team_hist"], ret))
            digs.append(enginea.sha(arr["i"], arr["j"], ret))
            kind = rnd.choice(["u16", "u32", "f32"])
            if kind == "f32":
                img = (g.random((ns, nf)) * 1000).astype(np.float32)
                if rnd.random() < 0.25:
                    img[rnd.randrange(ns), rnd.randrange(nf)] = np.nan
            else:
                img = g.integers(0, 2 ** (16 if kind == "u16" else 32) - 1, (ns, nf)).astype(np.uint16 if kind == "u16" else np.uint32)
            cut = rnd.choice([0, 1, 500, 40000])
            if kind == "u32" and rnd.random() < 0.4:
                # counts beyond 2^24 (not every integer is a float32 there) and a cut that float32 holds exactly, just below
                # or at some of them
                v0 = int(g.integers(2 ** 24 + 2, 2 ** 31 - 200))
                cut = int(np.float32(v0))
                if cut >= 2 ** 31:
                    cut = 2 ** 30
                for dv in (1, 2, 3, 64, 127, 129, -1, 0):
                    img[rnd.randrange(ns), rnd.randrange(nf)] = cut + dv
            mk = m.astype(np.uint8) * rnd.choice([1, 255, 2, 4])
            vals = {"img": img, "msk": mk, "row": [ns, nf], "col": [ns, nf], "val": [ns, nf],
                    "cut": cut if kind == "u16" else float(cut), "ns": ns, "nf": nf}
            if viol is None:
                ret, arr, st = kernels.run_kernel(sim, "tosparse_" + kind, vals,
                                                  {"img": "in", "msk": "in", "row": "out", "col": "out", "val": "out"}, cfg,
                                                  gstyle=desc["gstyle"], track_conflicts=0)
                sts.append(st)
                viol = enginea.viol_from_stats(st, "tosparse_" + kind, kernels.region_names("tosparse_" + kind))
                sel = m & (img > cut)
                r, c = np.nonzero(sel)
                if viol is None and (ret != len(r) or (arr["row"].ravel()[:ret] != r).any() or (arr["col"].ravel()[:ret] != c).any()
                                     or (arr["val"].ravel()[:ret] != img[sel]).any()):
                    viol = V("wrong-pixels", "tosparse_%s: %d pixels returned, %d selected by (mask != 0) & (img > %s); mask value %d"
                             % (kind, ret, len(r), cut, mk.max()))
                digs.append(enginea.sha(arr["row"].ravel()[:max(ret, 0)], ret))
            if viol is None and ns * nf <= 2000 and rnd.random() < 0.3:
                # a second Python thread converts another image at the same time (tosparse_* run without the GIL)
                ns3, nf3 = rnd.choice([1, 2, 5, 9]), rnd.choice([1, 3, 8])
                m3 = rand_mask(rnd, g, ns3, nf3)
                img3 = (g.random((ns3, nf3)) * 1000).astype(img.dtype)
                vals3 = {"img": img3, "msk": m3.astype(np.uint8), "row": [ns3, nf3], "col": [ns3, nf3], "val": [ns3, nf3],
                         "cut": vals["cut"], "ns": ns3, "nf": nf3}
                roles3 = {"img": "in", "msk": "in", "row": "out", "col": "out", "val": "out"}
                outs, stc = kernels.run_concurrent(sim, [("tosparse_" + kind, vals, roles3), ("tosparse_" + kind, vals3, roles3)],
                                                   dict(cfg, team=2), gstyle=desc["gstyle"], pct_est=max(50, 10 * (ns * nf + ns3 * nf3)))
                sts.append(stc)
                conc_pairs = 1
                viol = enginea.viol_from_stats(stc, "tosparse_" + kind, {})
                if viol is not None:
                    viol["key"] = "tosparse_%s:concurrent:%s" % (kind, viol["class"])
                for (im_q, m_q), (ret_q, arr_q) in zip(((img, m), (img3, m3)), outs):
                    if viol is not None:
                        break
                    sel_q = m_q & (im_q > cut)
                    rq, cq = np.nonzero(sel_q)
                    if ret_q != len(rq) or (arr_q["row"].ravel()[:ret_q] != rq).any() or (arr_q["col"].ravel()[:ret_q] != cq).any() \
                            or (arr_q["val"].ravel()[:ret_q] != im_q[sel_q]).any():
                        viol = V("not-reentrant", "two Python threads inside tosparse_%s at the same time on their own images: one of them "
                                                  "gets other pixels than (mask != 0) & (img > cut)" % kind)
            nontrivial = nnz >= 2
        else:
            # overlaps: a history on reused cache objects
            ns2, nf2 = max(min(ns, 65400), 2), max(min(nf, 65400), 2)  # room for the +50 row offset below uint16's end
            begin()
            with contextlib.redirect_stdout(io.StringIO()):
                lin = sf.overlaps_linear(nnzmax=rnd.choice([4, 16, 4096]))
                mat = sf.overlaps_matrix(npkmax=rnd.choice([2, 4, 256]))
                kept = []
                offs = {}
                ncalls = rnd.choice([2, 3, 5])
                prev = None
                for k in range(ncalls):
                    shrink = k > 0 and rnd.random() < 0.5
                    a, b = (max(1, ns2 // 2), max(1, nf2 // 2)) if shrink else (ns2, nf2)
                    r1, c1, l1, n1 = labelled_frame(rnd, g, a, b)
                    r2, c2, l2, n2 = labelled_frame(rnd, g, a, b, base=(r1, c1))
                    # the frames may sit anywhere in an image of up to 65535 x 65535 pixels: around the middle row/column
                    # (where a 16 bit coordinate changes sign if taken as signed) or at the far end
                    roff = rnd.choice([0, 0, 0, 32768 - (a + 1) // 2, 32767, 65534 - a - 60])
                    coff = rnd.choice([0, 0, 0, 32768 - (b + 1) // 2, 65534 - b])
                    if roff < 0 or coff < 0 or roff + a + 60 > 65534 or coff + b > 65534:   # sparse_frame accepts shapes and coordinates below 65535
                        roff = coff = 0
                    r1, r2 = (r1 + roff).astype(np.uint16), (r2 + roff).astype(np.uint16)
                    c1, c2 = (c1 + coff).astype(np.uint16), (c2 + coff).astype(np.uint16)
                    offs["%d/%d" % (1 if roff else 0, 1 if coff else 0)] = offs.get("%d/%d" % (1 if roff else 0, 1 if coff else 0), 0) + 1
                    if rnd.random() < 0.15:
                        r2 = (r2 + 50).astype(np.uint16)  # disjoint
                    high = rnd.random() < 0.04
                    if high:
                        # label numbers beyond 65535 (scan-wide numbering): the linear algorithm only (the matrix one is
                        # quadratic in the number of labels by design)
                        hb = rnd.choice([65530, 70000, 131070])
                        l1, l2 = (l1 + hb).astype(np.int32), (l2 + hb).astype(np.int32)
                        n1, n2 = n1 + hb, n2 + hb
                    want = pair_counter(r1, c1, l1, r2, c2, l2)
                    nl, rcl = lin(r1, c1, l1, n1, r2, c2, l2, n2)
                    if high:
                        kept.append((want, nl, rcl, None, None, None))
                        nontrivial = nontrivial or len(want) > 0
                        continue
                    nm, rcm = mat(r1, c1, l1, n1, r2, c2, l2, n2)
                    f1 = sf.sparse_frame(r1, c1, (roff + a + 60, coff + b), pixels={"lab": l1})
                    f1.meta["lab"] = {"nlabel": n1}
                    f2 = sf.sparse_frame(r2, c2, (roff + a + 60, coff + b), pixels={"lab": l2})
                    f2.meta["lab"] = {"nlabel": n2}
                    coo = sf.overlaps(f1, "lab", f2, "lab") if len(want) else None
                    kept.append((want, nl, rcl, nm, None if rcm is None else np.array(rcm), coo))
                    nontrivial = nontrivial or len(want) > 0
                if rnd.random() < 0.03 and viol is None:
                    # one big peak present on both frames: more shared pixels than a 16 bit counter holds
                    sb = rnd.choice([257, 260, 300])
                    rb_, cb_ = np.divmod(np.arange(256 * sb), sb)
                    rb_, cb_ = rb_.astype(np.uint16), cb_.astype(np.uint16)
                    lb1 = np.ones(len(rb_), np.int32)
                    lb2 = np.where(cb_ < 3, 1, 2).astype(np.int32)
                    fb1 = sf.sparse_frame(rb_, cb_, (256, sb), pixels={"lab": lb1})
                    fb1.meta["lab"] = {"nlabel": 1}
                    fb2 = sf.sparse_frame(rb_, cb_, (256, sb), pixels={"lab": lb2})
                    fb2.meta["lab"] = {"nlabel": 2}
                    wantb = pair_counter(rb_, cb_, lb1, rb_, cb_, lb2)
                    cb = sf.overlaps(fb1, "lab", fb2, "lab").tocoo()
                    gotb = collections.Counter({(int(i) + 1, int(j) + 1): int(v) for i, j, v in zip(cb.row, cb.col, cb.data) if v})
                    nlb, rclb = sf.overlaps_linear(nnzmax=len(rb_))(rb_, cb_, lb1, 1, rb_, cb_, lb2, 2)
                    gotlb = collections.Counter({(int(x[0]), int(x[1])): int(x[2]) for x in rclb[:nlb]})
                    if gotb != wantb or gotlb != wantb:
                        viol = V("overlaps-wrong", "one peak of %d pixels present on both frames: overlaps() gives %s, overlaps_linear %s, the "
                                                   "shared-pixel counts are %s" % (len(rb_), dict(gotb), dict(gotlb), dict(wantb)))
                    big_shared[0] += 1
                # consume the answers afterwards, as properties.pairrow does
                for k, (want, nl, rcl, nm, rcm, coo) in enumerate(kept):
                    gotl = collections.Counter() if not nl else collections.Counter({(int(x[0]), int(x[1])): int(x[2]) for x in rcl})
                    gotm = collections.Counter({(int(x[0]), int(x[1])): int(x[2]) for x in rcm}) if (nm and rcm is not None) else collections.Counter()
                    if nl != len(want) or gotl != want or (nl and len(rcl) != nl):
                        viol = V("overlaps-linear-wrong", "call %d of %d on one overlaps_linear object: reported %s, shared-pixel "
                                                          "counts are %s" % (k + 1, len(kept), dict(gotl) if nl else nl, dict(want)))
                        break
                    if nm is None and rcm is None and coo is None and k >= 0 and (nm is None):
                        digs.append(enginea.sha(sorted(gotl.items())))
                        continue
                    if nm != len(want) or gotm != want:
                        viol = V("overlaps-matrix-wrong", "call %d of %d on one overlaps_matrix object: reported %s, shared-pixel "
                                                          "counts are %s" % (k + 1, len(kept), dict(gotm), dict(want)))
                        break
                    if coo is not None:
                        cc = coo.tocoo()
                        gotc = collections.Counter({(int(i) + 1, int(j) + 1): int(v) for i, j, v in zip(cc.row, cc.col, cc.data) if v})
                        if gotc != want or len(cc.data) != len(want):
                            viol = V("overlaps-wrong", "overlaps(): %s vs %s" % (dict(gotc), dict(want)))
                            break
                    digs.append(enginea.sha(sorted(gotl.items()), sorted(gotm.items())))
            sts.append(sim.stats())
        meas = None
        for st in sts:
            mm = enginea.run_measures(st, cfg)
            if meas is None:
                meas = mm
            else:
                for k in ("steps", "switches", "teams", "conflicts", "parallel_runs"):
                    meas[k] += mm[k]
        meas["scenario"] = {scen: 1}
        if scen == "pythreads":
            meas.update(meas_py)
        meas["concurrent_tosparse_pairs"] = conc_pairs
        meas["frames_through_an_hdf5_group"] = hdf_trips[0]
        meas["peaks_sharing_more_than_65535_pixels"] = big_shared[0]
        meas["data/mask layout"] = layouts
        if scen == "overlaps":
            meas["overlap_frames_offset(row/col)"] = offs
        meas["np_empty_garbage_buffers"] = self.proxy.count
        dig = enginea.sha([st["digest"] for st in sts], digs)
        return {"digest": dig, "sig": "%s/%s/%s/%s/%s" % (scen, desc["wseed"], ns, nf, cfg["team"]),
                "nontrivial": bool(nontrivial), "viol": viol, "measures": meas}


CHECK = C14()
if __name__ == "__main__":
    sys.exit(runner.main(CHECK))
