#!/venv/bin/python
"""
C15 - N-D peak merging equals graph connected components on any schedule.

Engine B (pysched).  numbalabelNd is a numba `prange` loop whose iterations read and write the shared label
array ("might be a race condition" says the source).  The compiled machine code cannot be scheduled, so the
check runs the function's own Python source (`py_func`) on T simulated threads, each given a chunk of the
index range, with pre-emption between BYTECODES of ImageD11/sinograms/properties.py (so `a[i] += x` and the
read-compare-write of a label can be split).  find_ND_labels, pks_table.find_uniq, pk2dmerge and pk2d run
unchanged on top; every other prange loop of the module is run with its iterations in a scheduler-chosen order.
Oracle: union-find components; labels exactly 0..n-1; termination within a sweep bound (bounded liveness);
merged counts/intensities are sums and positions intensity-weighted means.
Conformance side-check (not deciding): the natively compiled functions at several numba thread counts give the
same labels as the simulated source.
"""
from __future__ import print_function
import os, sys, random, io, contextlib, ast, inspect, textwrap
sys.path.insert(0, os.path.dirname(os.path.dirname(os.path.abspath(__file__))))
import numpy as np
from common import runner, enginea
from pysched import pysched


def components(n, ei, ej):
    parent = list(range(n))

    def find(x):
        while parent[x] != x:
            parent[x] = parent[parent[x]]
            x = parent[x]
        return x
    for a, b in zip(ei, ej):
        ra, rb = find(int(a)), find(int(b))
        if ra != rb:
            if ra < rb:
                parent[rb] = ra
            else:
                parent[ra] = rb
    roots = sorted(set(find(x) for x in range(n)))
    idx = {r: k for k, r in enumerate(roots)}
    return np.array([idx[find(x)] for x in range(n)], int), len(roots)


def classify(py_func):
    """how a prange function can be simulated: 'threads' (every simulated thread runs the whole function on its
    chunk; needs a side-effect free prelude) or 'permute' (one thread, iterations in scheduler order)"""
    src = textwrap.dedent(inspect.getsource(py_func))
    tree = ast.parse(src)
    fn = tree.body[0]
    has_prange = any(isinstance(n, ast.Attribute) and n.attr == "prange" for n in ast.walk(fn))
    if not has_prange:
        return None, None
    pre = []
    loop = None
    for st in fn.body:
        if isinstance(st, ast.For) and any(isinstance(n, ast.Attribute) and n.attr == "prange" for n in ast.walk(st.iter)):
            loop = st
            break
        pre.append(st)
    if loop is None:
        return "permute", None
    pure = True
    for st in pre:
        for n in ast.walk(st):
            if isinstance(n, (ast.Subscript,)) and isinstance(getattr(n, "ctx", None), ast.Store):
                pure = False
            if isinstance(n, ast.Call):
                f = n.func
                name = f.attr if isinstance(f, ast.Attribute) else getattr(f, "id", "")
                if name not in ("len", "min", "max", "int", "float"):
                    pure = False
            if isinstance(n, (ast.For, ast.While)):
                pure = False
    # reduction: the returned name is augmented-assigned inside the loop
    red = None
    for st in fn.body:
        if isinstance(st, ast.Return) and isinstance(st.value, ast.Name):
            nm = st.value.id
            if any(isinstance(n, ast.AugAssign) and isinstance(n.target, ast.Name) and n.target.id == nm for n in ast.walk(loop)):
                red = nm
    return ("threads" if pure else "permute"), red


class NumbaProxy(object):
    """stands in for the numba module inside properties.py while a py_func runs"""

    def __init__(self, real, owner):
        self._real, self._owner = real, owner

    def __getattr__(self, n):
        return getattr(self._real, n)

    def prange(self, *a):
        return self._owner.prange(*a)

    def get_num_threads(self):
        return int(self._owner.state["T"])


class C15(object):
    id = "C15"
    engine = "pysched"
    time_keys = {"steps": "pre-emption points (bytecodes or source lines of the files under test)"}
    fault_keys = ["switches", "permuted_prange_loops", "native_conformance_runs"]
    tiers = {"quick": {"runs": 1500, "budget_s": 60, "selftest_every": 40, "fresh_selftest": 6},
             "thorough": {"runs": 500000, "budget_s": 800, "selftest_every": 300, "fresh_selftest": 12}}
    rule = ("one run = (overlap graph with 1..60 nodes: chains in both directions and shuffled, stars, cliques, forests, "
            "duplicates, self loops, isolated nodes, no edges; property table; T = 1..16 simulated numba threads with "
            "contiguous or random chunks; strategy; interleaving between bytecodes); distinct = distinct (graph digest, "
            "T, chunking, schedule signature); non-trivial = the graph has an edge between different nodes and T >= 2; also: omega/dty/scale as 1-D or 2-D maps in C/Fortran/transposed/strided layout and float32/integer dtype, int32/unsigned index arrays, the same table merged 1-3 times, the overlap matrix dumped in between, renumbering of converged labellings beyond 4096 peaks, native conformance at 1/2/4 numba threads and on one long shuffled chain, labels of the first call looked at after a second labelling, scale factors of exactly 0, the labelled table saved next to another one and read back")
    components = {"real": ["ImageD11.sinograms.properties: find_ND_labels, pks_table.find_uniq / pk2dmerge / pk2d (unchanged "
                           "Python); the Python source (py_func) of numbalabelNd, get_clean_labels, n_pk2d",
                           "natively compiled numbalabelNd/get_clean_labels/numbapkmerge at numba thread counts 1, 2, 4 "
                           "(conformance side-check in a sample of runs)"],
                  "stub": ["numba.prange (simulated threads over chunks of the index range, or scheduler-ordered iterations)",
                           "numba's thread pool and the machine code of the prange loops (not schedulable: the source is simulated)"]}
    assumptions = ["numba's semantics for prange: iterations distributed over threads in chunks, scalar reductions summed "
                   "at the join; sequential consistency at bytecode granularity",
                   "the prelude of a function simulated in 'threads' mode is side-effect free (checked on its AST; "
                   "otherwise its iterations are permuted on one thread)"]

    def prepare(self, ctx):
        enginea.prepare_sim(ctx, import_imaged11=True)
        with contextlib.redirect_stdout(io.StringIO()):
            import ImageD11.sinograms.properties as props
        import numba
        self.props, self.numba = props, numba
        self.file = props.__file__
        self.sim_fns = {}
        for name, obj in list(vars(props).items()):
            if hasattr(obj, "py_func"):
                mode, red = classify(obj.py_func)
                if mode:
                    self.sim_fns[name] = (obj, mode, red)
        need = {"numbalabelNd", "get_clean_labels"}
        if not need <= set(self.sim_fns):
            raise runner.HarnessError("expected prange functions not found in properties.py: %s" % sorted(self.sim_fns))
        if self.sim_fns["numbalabelNd"][1] != "threads":
            raise runner.HarnessError("numbalabelNd has a prelude with side effects: the 'threads' simulation mode is not valid")
        # compile the native versions in the parent (without running them: no thread pool before fork)
        for nm, sig in (("numbalabelNd", "int64(int64[::1], int64[::1], int64[::1], int64)"),
                        ("get_clean_labels", "int64(int64[::1])")):
            try:
                getattr(props, nm).compile(sig)
            except Exception as e:
                raise runner.HarnessError("cannot compile %s natively: %s" % (nm, e))
        self.native = {n: getattr(props, n) for n in vars(props) if hasattr(getattr(props, n), "py_func")}
        # CPython instruments a code object for per-opcode tracing the first time a traced frame of it asks for it, and
        # that first execution is traced differently: run every function of the call tree once before anything counts
        for k in range(6):
            d = self.gen(runner.run_seed(987654321, k), ctx)
            d["native"] = False
            d["scale"] = None if k % 2 else [1.0] * d["nfrm"]
            d["idx_dtype"] = "int64"    # the warm-up runs in the parent: keep to the plainest inputs
            self.execute(d, ctx)

    # ------------------------------------------------------------------ workload
    def gen(self, rs, ctx):
        rnd = random.Random(rs)
        n = rnd.choice([1, 2, 3, 5, 8, 13, 25, 40, 60])
        kind = rnd.choice(["chain", "chain_rev", "chain_shuffled", "star", "clique", "forest", "random", "none", "dups", "selfloops"])
        E = []
        if kind.startswith("chain"):
            E = [(k, k + 1) for k in range(n - 1)]
            if kind == "chain_rev":
                E = E[::-1]
            if kind == "chain_shuffled":
                rnd.shuffle(E)
        elif kind == "star":
            c = rnd.randrange(n)
            E = [(c, k) for k in range(n) if k != c]
        elif kind == "clique":
            m = min(n, 7)
            E = [(a, b) for a in range(m) for b in range(a + 1, m)]
        elif kind == "forest":
            for k in range(1, n):
                if rnd.random() < 0.7:
                    E.append((rnd.randrange(k), k))
            rnd.shuffle(E)
        elif kind in ("random", "dups", "selfloops"):
            for _ in range(rnd.randint(0, 2 * n)):
                E.append((rnd.randrange(n), rnd.randrange(n)))
            if kind == "dups":
                E = E + E[:len(E) // 2]
            if kind == "selfloops":
                E += [(k, k) for k in range(0, n, 2)]
        E = [(a, b) if rnd.random() < 0.5 else (b, a) for a, b in E]
        nfrm = rnd.randint(1, 12)
        layout, shape2 = "1d", None
        if rnd.random() < 0.5:
            # omega/dty/scale as (rows, columns) maps of the scan, in any memory layout; frame numbers index them in
            # logical row-major order
            shape2 = [rnd.randint(1, 5), rnd.randint(1, 5)]
            nfrm = shape2[0] * shape2[1]
            layout = rnd.choice(["2d_c", "2d_f", "2d_t", "2d_strided"])
        props = [[rnd.randint(1, 50) for _ in range(n)],            # s1
                 [rnd.randint(1, 100000) for _ in range(n)],        # sI
                 [rnd.randint(0, 10 ** 7) for _ in range(n)],       # srI
                 [rnd.randint(0, 10 ** 7) for _ in range(n)],       # scI
                 [rnd.randrange(nfrm) for _ in range(n)]]           # frm
        T = rnd.choice([1, 2, 2, 3, 4, 5, 8, 16])
        big_clean = None
        if rnd.random() < 0.03:
            # the renumbering step alone on a converged labelling of a table beyond 4096 2D peaks
            big_clean = {"n": rnd.choice([4095, 4096, 4097, 4100, 5001, 8191]), "p_root": rnd.choice([0.02, 0.3, 0.9]),
                         "seed": rnd.getrandbits(32)}
        return {"entry": "find_ND_labels", "n": n, "kind": kind, "edges": E, "props": props, "nfrm": nfrm,
                "omega": [round(rnd.uniform(-180, 180), 3) for _ in range(nfrm)],
                "dty": [round(rnd.uniform(-5, 5), 3) for _ in range(nfrm)],
                # per-frame monitor scale; exactly 0.0 on a frame where the beam was off
                "scale": None if rnd.random() < 0.5 else [0.0 if rnd.random() < 0.15 else round(rnd.uniform(0.5, 2.0), 3) for _ in range(nfrm)],
                "T": T, "chunking": rnd.choice(["static", "static", "random"]), "cseed": rnd.getrandbits(32),
                "strategy": rnd.choice(["random", "random", "pct", "rr", "rtc"]), "p_inv": rnd.choice([1, 2, 4, 16, 64]),
                "quantum": rnd.choice([1, 2, 5]), "pct_d": rnd.choice([1, 2, 3]), "sseed": rnd.getrandbits(48),
                "native_big": ({"n": rnd.choice([46341, 50000, 70001]), "edges": rnd.choice([30000, 90000]), "seed": rnd.getrandbits(32),
                                "dtype": rnd.choice(["int32", "int32", "int64"]),
                                # "chain": one long string of peaks whose numbers and pairs are stored in shuffled order (labelling
                                # it takes hundreds of sweeps)
                                "shape": rnd.choice(["local", "chain", "chain"]), "chain_n": rnd.choice([300, 700, 1500, 3000])}
                               if rnd.random() < (0.004 if ctx.tier == "quick" else 0.0008) else None),
                "persist": rnd.random() < 0.2,
                "native": rnd.random() < 0.04, "layout": layout, "shape2": shape2, "big_clean": big_clean,
                "idx_dtype": rnd.choice(["int64", "int64", "int64", "int32", "uint32", "uint16", "uint64"]),
                "merge_calls": [rnd.random() < 0.5 for _ in range(rnd.choice([0, 0, 1, 2]))],
                # motor positions as the data files hold them: float64, float32, or whole numbers stored as integers
                "motor_dtype": rnd.choice(["float64", "float64", "float32", "int64"]),
                # the overlap matrix is dumped to a file between labelling and merging
                "dump_between": rnd.random() < 0.2, "scipy_first": rnd.random() < 0.25,
                "relabel_edges": ([[rnd.randrange(n), rnd.randrange(n)] for _ in range(rnd.randint(1, 3))] if rnd.random() < 0.2 else None)}

    def describe(self, desc):
        return {k: desc[k] for k in ("n", "kind", "edges", "T", "chunking", "strategy", "p_inv", "sseed")}

    # ------------------------------------------------------------------ simulated prange
    def prange(self, *a):
        st = self.state
        n = a[0] if len(a) == 1 else None
        ch = st["chunk"].get(st["sched"].cur.tid)
        if ch is not None:
            # 'threads' mode: this simulated thread's share of the range the function itself asked for
            k, T, cseed = ch
            idx = list(range(*a))
            if st["chunking"] == "random":
                random.Random(cseed).shuffle(idx)
            size = -(-len(idx) // T) if idx else 0
            return iter(idx[k * size:(k + 1) * size])
        order = list(range(*a))
        st["rnd"].shuffle(order)     # 'permute' mode
        st["permuted"] += 1
        return iter(order)

    def make_sim(self, name):
        obj, mode, red = self.sim_fns[name]
        pyf = obj.py_func

        def sim(*args, **kw):
            st = self.state
            s = st["sched"]
            st["calls"][name] = st["calls"].get(name, 0) + 1
            if mode == "permute":
                return pyf(*args, **kw)
            T = st["T"]
            cseed = st["rnd"].getrandbits(32)
            rets = [None] * T
            ths = []
            for k in range(T):
                def body(k=k):
                    st["chunk"][s.cur.tid] = (k, T, cseed)
                    try:
                        rets[k] = pyf(*args, **kw)
                    finally:
                        st["chunk"].pop(s.cur.tid, None)
                ths.append(s.spawn(body, "%s-%d.%d" % (name, st["calls"][name], k)))
            for t in ths:
                s.join(t)
            for t in ths:
                if t.exc is not None:
                    raise t.exc
            if red:
                return sum(r for r in rets if r is not None)
            return rets[0]
        return sim

    # ------------------------------------------------------------------ execution
    def exec_big_clean(self, desc, ctx):
        props = self.props
        bc = desc["big_clean"]
        n = bc["n"]
        g = np.random.default_rng(bc["seed"])
        root = np.arange(n)
        isroot = g.random(n) < bc["p_root"]
        isroot[0] = True
        parents = (g.random(n) * np.arange(n)).astype(int)      # some earlier peak
        for i in range(1, n):
            if not isroot[i]:
                root[i] = root[parents[i]]
        labels = root.astype(np.int64).copy()
        want = np.cumsum(isroot)[root] - 1
        sched = pysched.Sched(desc["sseed"], strategy=desc["strategy"], p_inv=desc["p_inv"], quantum=max(50, desc["quantum"]),
                              pct_d=desc["pct_d"], pct_est=40 * n, step_cap=400 * n + 400000, trace_files=[self.file],
                              replay=desc.get("replay"), opcodes=False)
        self.state = {"sched": sched, "T": desc["T"], "chunking": desc["chunking"], "rnd": random.Random(desc["cseed"]),
                      "chunk": {}, "calls": {}, "permuted": 0}
        saved = {nm: getattr(props, nm) for nm in self.sim_fns}
        saved_numba = props.numba
        viol, out = None, {}
        try:
            for nm in self.sim_fns:
                setattr(props, nm, self.make_sim(nm))
            props.numba = NumbaProxy(self.numba, self)
            with contextlib.redirect_stdout(io.StringIO()):
                try:
                    out["n"] = sched.run(lambda: props.get_clean_labels(labels))
                except (pysched.Deadlock, pysched.StepCap) as e:
                    viol = {"class": "no-termination", "key": "ndmerge:no-termination", "detail": str(e)}
        finally:
            for nm, o in saved.items():
                setattr(props, nm, o)
            props.numba = saved_numba
        if viol is None and (out["n"] is None or int(out["n"]) != int(isroot.sum()) or not np.array_equal(labels, want)):
            bad = np.nonzero(labels != want)[0]
            viol = {"class": "labels-not-0..n-1", "key": "ndmerge:labels-not-0..n-1",
                    "detail": "get_clean_labels on a converged labelling of %d 2D peaks in %d groups (%d threads): %s groups reported, %d "
                              "peaks carry another label than the rank of their group (first: peak %s)" %
                              (n, int(isroot.sum()), desc["T"], out.get("n"), len(bad), bad[:1].tolist())}
        meas = {"steps": sched.steps, "switches": sched.switches, "T": {str(desc["T"]): 1}, "graph_kind": {"big_clean": 1},
                "permuted_prange_loops": self.state["permuted"], "native_conformance_runs": 0, "big_renumbering_runs": 1}
        return {"digest": enginea.sha(sched.digest(), labels), "sig": "big_clean/%d/%s/%s" % (n, bc["seed"], desc["T"]),
                "nontrivial": desc["T"] > 1, "viol": viol, "measures": meas}

    def execute(self, desc, ctx):
        if desc.get("big_clean"):
            return self.exec_big_clean(desc, ctx)
        props = self.props
        n = desc["n"]
        E = desc["edges"]
        ei = np.array([a for a, b in E], np.int64)
        ej = np.array([b for a, b in E], np.int64)
        want, ncomp = components(n, ei, ej)
        sched = pysched.Sched(desc["sseed"], strategy=desc["strategy"], p_inv=desc["p_inv"], quantum=desc["quantum"],
                              pct_d=desc["pct_d"], pct_est=40 * (len(E) + 1), step_cap=400000 + 4000 * (len(E) + n),
                              trace_files=[self.file], replay=desc.get("replay"), opcodes=True)
        self.state = {"sched": sched, "T": desc["T"], "chunking": desc["chunking"], "rnd": random.Random(desc["cseed"]),
                      "chunk": {}, "calls": {}, "permuted": 0}
        saved = {nm: getattr(props, nm) for nm in self.sim_fns}
        saved_numba = props.numba
        viol = None
        res = {}

        def V(cls, detail):
            return {"class": cls, "key": "ndmerge:" + cls, "detail": detail}

        mdt = desc.get("motor_dtype", "float64")
        if mdt == "int64":
            desc = dict(desc, omega=[float(round(x)) for x in desc["omega"]], dty=[float(round(x)) for x in desc["dty"]])
        elif mdt == "float32":
            desc = dict(desc, omega=[float(np.float32(x)) for x in desc["omega"]], dty=[float(np.float32(x)) for x in desc["dty"]])

        def lay(vals, motor=False):
            a = np.array(vals, float)
            if motor:
                a = a.astype(mdt)
            L = desc.get("layout", "1d")
            if L == "1d":
                return a
            a = a.reshape(desc["shape2"])
            if L == "2d_f":
                return np.asfortranarray(a)
            if L == "2d_t":
                return a.T.copy().T
            if L == "2d_strided":
                big = np.full((a.shape[0], 2 * a.shape[1]), -777.0)
                big[:, ::2] = a
                return big[:, ::2]
            return a

        def main():
            idt = np.dtype(desc.get("idx_dtype", "int64"))
            tab = props.pks_table(ipk=np.array([0, n]), pk_props=np.array(desc["props"], np.int64),
                                  rc=np.array([ei, ej, np.ones(len(E), np.int64)], idt).reshape(3, len(E)))
            if desc.get("scipy_first") and len(E):
                # the other route to the same labelling (scipy's connected components): same partition, labels 0..n-1
                nls, labs = tab.find_uniq(use_scipy=True)
                res["scipy"] = (int(nls), np.array(labs))
            nl, lab = tab.find_uniq()
            res["nlabel"], res["labels"] = int(nl), np.array(lab)
            om = lay(desc["omega"], True)
            dy = lay(desc["dty"], True)
            if desc.get("dump_between"):
                dump = os.path.join(ctx.scratch, "c15_dump_%d.h5" % os.getpid())
                if os.path.exists(dump):
                    os.remove(dump)
                tab.find_uniq(outputfile=dump)      # writes the i/j/data file; the labelling above stays what it is
                if tab.nlabel != res["nlabel"] or tab.glabel is None or not np.array_equal(np.asarray(tab.glabel), res["labels"]):
                    res["dump_changed_labels"] = True
            sf = None if desc["scale"] is None else lay(desc["scale"])
            # the same table merged again (once without and once with the monitor scaling, as dataset code does): every
            # call must give the sums of that call
            res["earlier"] = []
            for with_scale in desc.get("merge_calls", []):
                sfk = lay(desc["scale"] if (with_scale and desc["scale"] is not None) else [1.0] * len(desc["omega"])) if with_scale else None
                res["earlier"].append((None if sfk is None else np.array(sfk).ravel().tolist(),
                                       tab.pk2dmerge(om, dy, scale_factor=sfk)))     # kept as returned, looked at after the last call
            res["merged"] = {k: np.array(v) for k, v in tab.pk2dmerge(om, dy, scale_factor=sf).items()}
            res["pk2d"] = {k: np.array(v) for k, v in tab.pk2d(om, dy, scale_factor=sf).items()}
            if desc.get("persist") and n:
                # the labelled table is saved next to another table (the file's default group) and read back from its own group
                pth = os.path.join(ctx.scratch, "c15_tab_%d.h5" % os.getpid())
                if os.path.exists(pth):
                    os.remove(pth)
                first = props.pks_table(ipk=np.array([0, n]), pk_props=np.array(desc["props"], np.int64),
                                        glabel=np.arange(n), nlabel=n)           # every 2D peak a merged peak of its own
                first.npk = np.array([[n, 0, 0]])
                first.save(pth)
                tab.npk = np.array([[n, len(E), 0]])
                tab.save(pth, group="scan2")
                back = props.pks_table.load(pth, h5group="scan2")
                res["persist"] = (int(back.nlabel), None if back.glabel is None else np.array(back.glabel))
                os.remove(pth)
            if desc.get("relabel_edges"):
                # more overlaps arrive (rows come in batches): the same table is labelled again for the larger graph
                E2 = list(E) + [tuple(e) for e in desc["relabel_edges"]]
                tab.rc = np.array([[a for a, b in E2], [b for a, b in E2], [1] * len(E2)], idt).reshape(3, len(E2))
                nl2, lab2 = tab.find_uniq()
                res["relabel"] = (int(nl2), np.array(lab2), E2)
                # what the first call returned is still the labelling of the first graph
                if not np.array_equal(np.asarray(lab), res["labels"]):
                    res["first_labels_overwritten"] = True

        try:
            for nm in self.sim_fns:
                setattr(props, nm, self.make_sim(nm))
            props.numba = NumbaProxy(self.numba, self)
            with contextlib.redirect_stdout(io.StringIO()):
                try:
                    sched.run(main)
                except pysched.Deadlock as e:
                    viol = V("deadlock", str(e))
                except pysched.StepCap as e:
                    viol = V("no-termination", "label sweeps did not reach a fixed point within the step budget "
                                               "(%d sweeps so far, %d nodes, %d edges, T=%d): %s" %
                             (self.state["calls"].get("numbalabelNd", 0), n, len(E), desc["T"], e))
                except Exception as e:
                    viol = V("raises", "%s: %s" % (type(e).__name__, e))
        finally:
            for nm, o in saved.items():
                setattr(props, nm, o)
            props.numba = saved_numba
        if viol is None and res.get("persist") is not None:
            pn_, pl_ = res["persist"]
            if pn_ != res["nlabel"] or pl_ is None or not np.array_equal(pl_, res["labels"]):
                viol = V("labels-not-0..n-1", "the labelled table saved into the group 'scan2' of a file that also holds another table "
                                              "reads back with %d labels (it has %d) or with other labels" % (pn_, res["nlabel"]))
        if viol is None and res.get("first_labels_overwritten"):
            viol = V("labels-not-0..n-1", "the label array returned by find_uniq() changed when the same table was labelled again for a "
                                          "larger graph: the caller's labels of the first graph are no longer its connected components")
        if viol is None and res.get("scipy"):
            nls, labs = res["scipy"]
            ms_, mw_ = {}, {}
            if nls != ncomp or [ms_.setdefault(int(x), len(ms_)) for x in labs] != [mw_.setdefault(int(x), len(mw_)) for x in want] or \
                    sorted(set(labs.tolist())) != list(range(ncomp)):
                viol = V("partition-differs", "find_uniq(use_scipy=True): %d labels, the graph has %d components (or another partition)" % (nls, ncomp))
        if viol is None and res.get("relabel"):
            nl2, lab2, E2 = res["relabel"]
            want2, nc2 = components(n, [a for a, b in E2], [b for a, b in E2])
            m_, m2_ = {}, {}
            if nl2 != nc2 or [m_.setdefault(int(x), len(m_)) for x in lab2] != [m2_.setdefault(int(x), len(m2_)) for x in want2] or \
                    sorted(set(lab2.tolist())) != list(range(nc2)):
                viol = V("partition-differs", "the table labelled again after %d more overlaps arrived: %d labels, the graph now has %d "
                                              "components (or another partition)" % (len(E2) - len(E), nl2, nc2))
        if viol is None and res.get("dump_changed_labels"):
            viol = V("labels-not-0..n-1", "find_uniq(outputfile=...) on a table that was already labelled changed or dropped its labels")
        sweeps = self.state["calls"].get("numbalabelNd", 0)
        if viol is None:
            lab = res["labels"]
            if res["nlabel"] != ncomp or sorted(set(lab.tolist())) != list(range(ncomp)):
                viol = V("labels-not-0..n-1", "%d labels reported, labels used %s, graph has %d components" %
                         (res["nlabel"], sorted(set(lab.tolist()))[:8], ncomp))
            else:
                m = {}
                canon = [m.setdefault(int(x), len(m)) for x in lab]
                m2 = {}
                canon2 = [m2.setdefault(int(x), len(m2)) for x in want]
                if canon != canon2:
                    viol = V("partition-differs", "two 2D peaks share a label without being connected through overlaps, or the "
                                                  "other way round (T=%d, %s chunks, %s)" % (desc["T"], desc["chunking"], desc["strategy"]))
            if viol is None and sweeps > 4 * n + 16:
                viol = V("too-many-sweeps", "%d sweeps for %d nodes" % (sweeps, n))
        calls = [] if viol is not None else \
            [(c_sc, c_mg, "call %d of %d on one table" % (q + 1, len(res["earlier"]) + 1)) for q, (c_sc, c_mg) in enumerate(res["earlier"])] + \
            [(desc["scale"], res["merged"], "call %d of %d on one table" % (len(res["earlier"]) + 1, len(res["earlier"]) + 1))]
        for c_sc, mg, which in calls:
            if viol is not None:
                break
            P = np.array(desc["props"], float)
            frm = P[4].astype(int)
            sc = np.ones(len(desc["omega"])) if c_sc is None else np.array(c_sc)
            w = P[1] * sc[frm]
            om, dy = np.array(desc["omega"])[frm], np.array(desc["dty"])[frm]
            lab = res["labels"]
            for c in range(ncomp):
                mem = lab == c
                exp = {"Number_of_pixels": P[0][mem].sum(), "sum_intensity": w[mem].sum(), "npk2d": mem.sum(),
                       "s_raw": (P[2][mem] * sc[frm][mem]).sum() / w[mem].sum(), "f_raw": (P[3][mem] * sc[frm][mem]).sum() / w[mem].sum(),
                       "omega": (om[mem] * w[mem]).sum() / w[mem].sum(), "dty": (dy[mem] * w[mem]).sum() / w[mem].sum()}
                for k, v in exp.items():
                    got = mg[k][c]
                    if w[mem].sum() == 0 and k in ("s_raw", "f_raw", "omega", "dty"):
                        continue        # all members sit on frames of scale 0: an intensity-weighted mean is not defined
                    if not abs(got - v) <= 1e-10 * max(1.0, abs(v)):
                        viol = V("merged-property-differs", "merged peak %d (%d members): %s is %r, members give %r (%s, omega/dty "
                                                            "layout %s)" % (c, int(mem.sum()), k, float(got), float(v), which, desc.get("layout", "1d")))
                        break
                if viol:
                    break
            if viol is None and list(mg["spot3d_id"]) != list(range(ncomp)):
                viol = V("merged-property-differs", "spot3d_id of merged peaks is not 0..n-1")
        if viol is None:
            # the 2D table itself
            P = np.array(desc["props"], float)
            frm = P[4].astype(int)
            sc = np.ones(len(desc["omega"])) if desc["scale"] is None else np.array(desc["scale"])
            p2 = res["pk2d"]
            exp2 = {"s_raw": P[2] / P[1], "f_raw": P[3] / P[1], "omega": np.array(desc["omega"])[frm], "dty": np.array(desc["dty"])[frm],
                    "Number_of_pixels": P[0], "sum_intensity": P[1] * sc[frm], "spot3d_id": res["labels"]}
            for k, v in exp2.items():
                g2 = np.asarray(p2[k], float)
                if g2.shape != v.shape or not np.all(np.abs(g2 - v) <= 1e-12 * np.maximum(1.0, np.abs(v))):
                    viol = V("pk2d-differs", "2D peak table column %s differs from the per-peak definition (omega/dty layout %s)" %
                             (k, desc.get("layout", "1d")))
                    break
        native_checked = 0
        if viol is None and desc["native"] and n > 0 and len(E):
            # in a forked child: compiled code that indexes out of range would take the worker down with it
            def native():
                out = []
                for nt in (1, 2, 4):
                    self.numba.set_num_threads(min(nt, self.numba.config.NUMBA_NUM_THREADS))
                    with contextlib.redirect_stdout(io.StringIO()):
                        nl, lab2 = props.find_ND_labels(ei, ej, n, verbose=0)
                    out.append((nt, int(nl), [int(x) for x in lab2]))
                return out
            got = None
            for attempt in range(2):
                r, w = os.pipe()
                pid = os.fork()
                if pid == 0:
                    try:
                        os.close(r)
                        import json as _json
                        os.write(w, _json.dumps(native()).encode())
                    finally:
                        os._exit(0)
                os.close(w)
                buf = b""
                while True:
                    c = os.read(r, 1 << 16)
                    if not c:
                        break
                    buf += c
                os.close(r)
                _, status = os.waitpid(pid, 0)
                if buf:
                    import json as _json
                    got = _json.loads(buf.decode())
                    break
            if got is None:
                viol = V("native-crash", "the compiled find_ND_labels died twice (status %s) on a graph the simulated source labels correctly" % status)
            else:
                for nt, nl, lab2 in got:
                    native_checked += 1
                    if nl != res["nlabel"] or (np.array(lab2) != res["labels"]).any():
                        viol = V("native-differs", "compiled find_ND_labels at %d numba threads differs from the simulated source" % nt)
                        break
        if viol is None and desc.get("native_big"):
            # conformance of the compiled code at the scale the statement speaks of (tens of thousands of 2D peaks, 32 bit
            # index arrays as the scan files hold them), in a forked child; reference: union-find
            nb = desc["native_big"]
            gbig = np.random.default_rng(nb["seed"])
            N = nb["n"]
            if nb.get("shape") == "chain":
                N = nb["chain_n"]
                perm_ = gbig.permutation(N)
                ordr_ = gbig.permutation(N - 1)
                src, dst = perm_[:-1][ordr_], perm_[1:][ordr_]
                flip_ = gbig.random(N - 1) < 0.5
                src, dst = np.where(flip_, dst, src), np.where(flip_, src, dst)
            else:
                src = gbig.integers(0, N, nb["edges"])
                dst = np.minimum(N - 1, src + gbig.integers(0, 4, nb["edges"]))
            bi, bj = src.astype(nb["dtype"]), dst.astype(nb["dtype"])

            def big():
                self.numba.set_num_threads(min(4, self.numba.config.NUMBA_NUM_THREADS))
                with contextlib.redirect_stdout(io.StringIO()):
                    nl, lab2 = props.find_ND_labels(bi, bj, N, verbose=0)
                wantb, ncb = components(N, src, dst)
                lab2 = np.asarray(lab2)
                ok = int(nl) == ncb and lab2.min() == 0 and lab2.max() == ncb - 1
                if ok:
                    # same partition: the map (reference component -> label) must be a bijection
                    pairs = np.unique(np.stack([np.asarray(wantb), lab2]), axis=1)
                    ok = pairs.shape[1] == ncb
                return {"ok": bool(ok), "nl": int(nl), "nc": int(ncb)}
            r_, w_ = os.pipe()
            pid = os.fork()
            if pid == 0:
                try:
                    os.close(r_)
                    import json as _json
                    os.write(w_, _json.dumps(big()).encode())
                finally:
                    os._exit(0)
            os.close(w_)
            buf = b""
            while True:
                c_ = os.read(r_, 1 << 16)
                if not c_:
                    break
                buf += c_
            os.close(r_)
            _, status = os.waitpid(pid, 0)
            native_checked += 1
            if not buf:
                viol = V("native-crash", "the compiled find_ND_labels died (status %s) on a graph of %d peaks with %s indices" % (status, N, nb["dtype"]))
            else:
                import json as _json
                gb_ = _json.loads(buf.decode())
                if not gb_["ok"]:
                    viol = V("native-differs", "compiled find_ND_labels on %d peaks with %s index arrays: %d labels, the graph has %d "
                                               "components (or another partition)" % (N, nb["dtype"], gb_["nl"], gb_["nc"]))
        real_edges = any(a != b for a, b in E)
        meas = {"steps": sched.steps, "switches": sched.switches, "sweeps": sweeps, "threads_T": {desc["T"]: 1},
                "strategy": {desc["strategy"]: 1}, "graph_kind": {desc["kind"]: 1}, "chunking": {desc["chunking"]: 1},
                "permuted_prange_loops": self.state["permuted"], "native_conformance_runs": native_checked,
                "native_shuffled_chain_runs": 1 if (desc.get("native_big") or {}).get("shape") == "chain" else 0,
                "max_sweeps": {str(sweeps): 1}}
        return {"digest": enginea.sha(sched.digest(), res.get("labels"), sweeps), "nontrivial": bool(real_edges and desc["T"] >= 2),
                "sig": "%s/%s/%s/%s" % (enginea.sha(n, E), desc["T"], desc["chunking"], sched.sched_sig()),
                "viol": viol, "measures": meas}

    def minimise(self, desc, viol, ctx):
        """delta debugging on the recorded context switches (replayed in a scheduler that otherwise keeps the running
        thread running and, when it blocks, takes the lowest-numbered runnable thread)"""
        cls = viol["class"]
        r0 = self.execute(desc, ctx)
        if not r0["viol"] or r0["viol"]["class"] != cls:
            return desc
        choices = [list(c) for c in self.state["sched"].choices]

        def test(sub):
            d = dict(desc)
            d["replay"] = sub
            r = self.execute(d, ctx)
            return r["viol"] is not None and r["viol"]["class"] == cls

        if not test(choices):
            return desc
        d = dict(desc)
        d["replay"] = enginea.ddmin(choices, test, max_tests=150)
        d["replay_note"] = "replay = [[step, thread id]] context switches; steps count pre-emption points (bytecodes)"
        return d


CHECK = C15()
if __name__ == "__main__":
    sys.exit(runner.main(CHECK))
