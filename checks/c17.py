#!/venv/bin/python
"""
C17 - columnfile stays rectangular and self-consistent under any operation sequence.

Engine C (histsim): seeded operation histories against a reference model.  The system is the real
ImageD11.columnfile.columnfile (three hand-maintained aliases of the same columns: private store, bigarray,
per-title attributes); the model is an ordered dict title -> list of floats.  A history starts from an empty,
dict-built, text-file-loaded or HDF-loaded columnfile (files in the run's private directory) and applies up to
40 operations; copies made on the way stay in the machine and are checked after EVERY step, so storage shared
between a copy and its source shows up as a model mismatch of the object that was not touched.
A generated-valid operation that raises is not an alarm by itself: the model keeps its pre-operation state and
the invariants are evaluated at once - a clean refusal passes, a half-applied operation is the violation.
Replay file = the operation list; minimisation = delta debugging on that list.
"""
from __future__ import print_function
import os, sys, random, math, io, contextlib, collections, json
sys.path.insert(0, os.path.dirname(os.path.dirname(os.path.abspath(__file__))))
import numpy as np
from common import runner, enginea

NAMES = ["aa", "bb", "cc", "dd", "ee", "ff", "gg", "hh", "sc", "fc", "omega", "Number_of_pixels"]


def fl(x):
    return [float(v) for v in x]


class Machine(object):
    """executes one history; returns (violation or None, number of distinct model states, ops executed)"""

    def __init__(self, columnfile_mod, scratch):
        self.cfm = columnfile_mod
        self.scratch = scratch
        self.objs = []  # list of [columnfile, model(OrderedDict title -> list)]
        self.aliased = set()  # ids of objects in which two titles were given the very same array
        self.states = set()
        self.raised = 0

    # ---------------------------------------------------------------- construction
    def start(self, init):
        kind, cols = init["kind"], init["cols"]
        model = collections.OrderedDict((t, fl(v)) for t, v in cols)
        if kind == "empty":
            cf = self.cfm.newcolumnfile([])
            model = collections.OrderedDict()
        elif kind == "dict":
            cf = self.cfm.colfile_from_dict(collections.OrderedDict((t, np.array(v, float)) for t, v in cols))
        elif kind == "text":
            src = self.cfm.colfile_from_dict(collections.OrderedDict((t, np.array(v, float)) for t, v in cols))
            p = os.path.join(self.scratch, "c17_%d.flt" % os.getpid())
            src.writefile(p)
            cf = self.cfm.columnfile(p)
            # what was printed is what the file holds
            model = collections.OrderedDict((t, fl(cf.getcolumn(t))) for t in cf.titles)
            if list(model.keys()) != [t for t, _ in cols]:
                return {"class": "load-titles", "key": "columnfile:load-titles", "detail": "titles changed on text load"}
        else:
            src = self.cfm.colfile_from_dict(collections.OrderedDict((t, np.array(v, float)) for t, v in cols))
            p = os.path.join(self.scratch, "c17_%d.h5" % os.getpid())
            if os.path.exists(p):
                os.remove(p)
            self.cfm.colfile_to_hdf(src, p, name="peaks")
            cf = self.cfm.colfile_from_hdf(p, name="peaks")
            # hdf has its own canonical title order and stores integer-typed titles as integers (C18's business):
            # the model starts from what was loaded
            if sorted(cf.titles) != sorted(model.keys()):
                return {"class": "load-titles", "key": "columnfile:load-titles", "detail": "titles changed on hdf load"}
            model = collections.OrderedDict((t, fl(cf.getcolumn(t))) for t in cf.titles)
        self.objs.append([cf, model])
        return self.invariants("initial state (%s)" % kind)

    # ---------------------------------------------------------------- invariants
    def invariants(self, after):
        for k, (cf, model) in enumerate(self.objs):
            nrows = len(next(iter(model.values()))) if model else 0
            who = "object %d after %s" % (k, after)
            if list(cf.titles) != list(model.keys()):
                return self.V("titles", "%s: titles %s, model %s" % (who, list(cf.titles), list(model.keys())))
            if model and cf.nrows != nrows:
                return self.V("nrows", "%s: nrows %s, model %d" % (who, cf.nrows, nrows))
            if cf.ncols != len(model):
                return self.V("ncols", "%s: ncols %s but %d titles" % (who, cf.ncols, len(model)))
            for t, want in model.items():
                views = {}
                try:
                    views["attribute"] = getattr(cf, t)
                    views["item"] = cf[t]
                    views["getcolumn"] = cf.getcolumn(t)
                except Exception as e:
                    return self.V("view-missing", "%s: column %s cannot be read through every view: %s %s" % (who, t, type(e).__name__, e))
                for vn, v in views.items():
                    if np.ndim(v) != 1 or len(v) != nrows:
                        return self.V("not-rectangular", "%s: %s view of column '%s' has shape %s, nrows is %d" %
                                      (who, vn, t, np.shape(v), nrows))
                    if not np.array_equal(np.asarray(v, float), np.array(want, float), equal_nan=True):
                        return self.V("wrong-values", "%s: %s view of column '%s' is %s, model %s" %
                                      (who, vn, t, np.asarray(v).tolist()[:8], want[:8]))
            # copies share no storage with any other object
            for j in range(k):
                other = self.objs[j][0]
                for t in model:
                    for t2 in self.objs[j][1]:
                        a, b = cf.getcolumn(t), other.getcolumn(t2)
                        if isinstance(a, np.ndarray) and isinstance(b, np.ndarray) and a.size and b.size and np.shares_memory(a, b):
                            return self.V("shared-storage", "%s: column '%s' shares memory with column '%s' of object %d "
                                                            "(a copy / row-copy)" % (who, t, t2, j))
        self.states.add(enginea.sha([(k, list(m.items())) for k, (c, m) in enumerate(self.objs)]))
        return None

    def V(self, cls, detail):
        return {"class": cls, "key": "columnfile:" + cls, "detail": detail}

    # ---------------------------------------------------------------- operations
    def apply(self, op):
        name = op["op"]
        k = op.get("obj", 0) % len(self.objs)
        cf, model = self.objs[k]
        nrows = len(next(iter(model.values()))) if model else cf.nrows
        new_model = collections.OrderedDict((t, list(v)) for t, v in model.items())
        extra_obj = None
        titles = list(model.keys())

        def pick_title(i):
            return titles[i % len(titles)]

        def cast_like(t, v):
            """in-place writes keep the column's dtype (HDF-loaded integer titles are int64): numpy's cast applies"""
            dt = np.asarray(cf.getcolumn(t)).dtype
            return fl(np.asarray(v, float).astype(dt).astype(float).ravel()) if np.ndim(v) else float(np.asarray(v, float).astype(dt))

        def vals(seedvals):
            v = (list(seedvals) * (nrows // max(1, len(seedvals)) + 1))[:nrows]
            return fl(v)

        if id(cf) in self.aliased and name in ("setitem_array", "setitem_scalar", "setattr_scalar", "write_attr",
                                               "write_item", "write_getcolumn"):
            # two titles of this object were handed the same array: in-place writes legitimately show in both, which the
            # model does not represent.  Row operations, whose expected result does not depend on aliasing, stay enabled.
            return None
        try:
            with contextlib.redirect_stdout(io.StringIO()):
                if name in ("addcolumn_new", "setitem_new"):
                    t = op["name"]
                    if t in model:
                        return None
                    v = vals(op["vals"])
                    arr = np.array(v, float).astype(op.get("dtype", "f8")) if op.get("asarray", True) else v
                    if op.get("strided") and op.get("asarray", True) and nrows:
                        # the column is a strided view (one column of a (n,3) table, every second element of a buffer)
                        if op["strided"] == 1:
                            tab = np.zeros((nrows, 3), arr.dtype)
                            tab[:, 1] = arr
                            arr = tab[:, 1]
                        else:
                            buf = np.zeros(2 * nrows, arr.dtype)
                            buf[::2] = arr
                            arr = buf[::2]
                    if op.get("readonly") and isinstance(arr, np.ndarray):
                        arr = arr.copy() if arr.base is None else arr
                        arr.flags.writeable = False
                    if name == "addcolumn_new":
                        cf.addcolumn(arr, t)
                    else:
                        cf[t] = arr
                    new_model[t] = v
                elif name in ("addcolumn_existing", "setcolumn", "setitem_array", "setattr_array"):
                    if not titles:
                        return None
                    t = pick_title(op["col"])
                    v = vals(op["vals"])
                    arr = np.array(v, float).astype(op.get("dtype", "f8"))
                    in_2d_store = isinstance(getattr(cf, "_columnfile__data", None), np.ndarray)
                    if name == "setitem_array" or in_2d_store:
                        # cf[t] = arr writes in place; so does any overwrite while the store is the single-dtype 2D
                        # bigarray (an all-integer HDF file gives an int64 bigarray)
                        v = cast_like(t, v)
                    if name == "addcolumn_existing":
                        cf.addcolumn(arr, t)
                    elif name == "setcolumn":
                        cf.setcolumn(arr, t)
                    elif name == "setitem_array":
                        cf[t] = arr
                    else:
                        setattr(cf, t, arr)
                    new_model[t] = v
                elif name in ("setitem_scalar", "setattr_scalar"):
                    if not titles:
                        return None
                    t = pick_title(op["col"])
                    x = float(op["x"])
                    xc = cast_like(t, x)
                    if name == "setitem_scalar":
                        cf[t] = x
                    else:
                        setattr(cf, t, x)
                    new_model[t] = [xc] * nrows
                elif name == "addcolumn_from_existing":
                    # y = x, handing over the very same array object (cf.addcolumn(cf.x, 'y'))
                    if not titles or op["name"] in model:
                        return None
                    src = pick_title(op["col"])
                    cf.addcolumn(cf.getcolumn(src), op["name"])
                    new_model[op["name"]] = list(model[src])
                    self.aliased.add(id(cf))
                elif name in ("write_attr", "write_item", "write_getcolumn"):
                    if not titles or nrows == 0:
                        return None
                    t = pick_title(op["col"])
                    r = op["row"] % nrows
                    x = float(op["x"])
                    xc = cast_like(t, x)
                    view = getattr(cf, t) if name == "write_attr" else (cf[t] if name == "write_item" else cf.getcolumn(t))
                    view[r] = x
                    new_model[t][r] = xc
                elif name == "filter":
                    if not titles:
                        return None
                    m = (op["mask"] * (nrows // max(1, len(op["mask"])) + 1))[:nrows]
                    style = op.get("mask_style", "bool")
                    if style == "bool":
                        cf.filter(np.array(m, bool))
                    elif style == "int01":
                        cf.filter(np.array(m, int))
                    elif style == "truthy":
                        # any array of true/false values in numpy's sense: counts, flags like 0/-1, a label column
                        cf.filter(np.array(m, int) * np.array([2, 5, -1, 7, 3] * (nrows // 5 + 1))[:nrows])
                    else:
                        cf.filter([bool(x) for x in m])
                    for t in new_model:
                        new_model[t] = [v for v, keep in zip(model[t], m) if keep]
                elif name == "removerows":
                    if not titles or nrows == 0:
                        return None
                    t = pick_title(op["col"])
                    tol = op["tol"]
                    values = op["values"]
                    col = model[t]
                    if tol <= 0:
                        hit = [(math.isfinite(v) and int(v) in [int(x) for x in values]) for v in col]   # nan / inf match nothing
                        usevals = [int(x) for x in values]
                    else:
                        hit = [any(abs(v - x) < tol for x in values) for v in col]
                        usevals = values
                    cf.removerows(t, usevals, tol=tol)
                    for t2 in new_model:
                        new_model[t2] = [v for v, h in zip(model[t2], hit) if not h]
                elif name == "sortby":
                    if not titles:
                        return None
                    t = pick_title(op["col"])
                    order = np.argsort(np.array(model[t], float))
                    # only unambiguous sorts: distinct, finite keys
                    if len(set(model[t])) != len(model[t]) or not all(math.isfinite(x) for x in model[t]):
                        return None
                    cf.sortby(t)
                    for t2 in new_model:
                        new_model[t2] = [model[t2][i] for i in order]
                elif name == "reorder":
                    if not titles:
                        return None
                    rnd = random.Random(op["pseed"])
                    perm = list(range(nrows))
                    rnd.shuffle(perm)
                    cf.reorder(np.array(perm, int))
                    for t2 in new_model:
                        new_model[t2] = [model[t2][i] for i in perm]
                elif name == "copy":
                    if len(self.objs) >= 3:
                        return None
                    extra_obj = [cf.copy(), collections.OrderedDict((t, list(v)) for t, v in model.items())]
                elif name == "copyrows":
                    if len(self.objs) >= 3 or not titles or nrows == 0:
                        return None
                    if op["slice"]:
                        a = op["a"] % nrows
                        b = a + 1 + op["b"] % (nrows - a)
                        rows = slice(a, b)
                        idx = list(range(a, b))
                    else:
                        idx = [i % nrows for i in op["rows"]] or [0]
                        rows = idx
                    extra_obj = [cf.copyrows(rows), collections.OrderedDict((t, [v[i] for i in idx]) for t, v in model.items())]
                elif name == "get_bigarray":
                    if not titles:
                        return None
                    big = cf.bigarray
                    if np.shape(big) != (len(titles), nrows) or not np.array_equal(np.asarray(big, float), np.array([model[t] for t in titles], float).reshape(len(titles), nrows), equal_nan=True):
                        return self.V("bigarray-wrong", "bigarray %s differs from the columns %s" % (np.shape(big), (len(titles), nrows)))
                elif name == "set_bigarray":
                    if not titles:
                        return None
                    n2 = op["nrows"]
                    rnd = random.Random(op["pseed"])
                    data = [[float(rnd.randint(-9, 9)) + 0.5 * c for _ in range(n2)] for c in range(len(titles))]
                    if op["as2d"] and op.get("order") == "T":
                        cf.bigarray = np.ascontiguousarray(np.array(data, float).reshape(len(titles), n2).T).T    # a transposed table
                    elif op["as2d"] and op.get("order") == "F":
                        cf.bigarray = np.asfortranarray(np.array(data, float).reshape(len(titles), n2))
                    elif op["as2d"]:
                        cf.bigarray = np.array(data, float).reshape(len(titles), n2)
                    else:
                        cf.bigarray = [np.array(d, float) for d in data]
                    for c, t in enumerate(titles):
                        new_model[t] = data[c]
                elif name.startswith("invalid_"):
                    # fault: an argument the operation must refuse (wrong length, ragged).  The model does not change;
                    # whatever the object does (it should raise), the invariants must hold afterwards
                    if not titles or nrows == 0:
                        return None
                    bad = nrows + 1 + op["extra"]
                    t = pick_title(op["col"])
                    self.invalid_ops = getattr(self, "invalid_ops", 0) + 1
                    if name == "invalid_addcolumn":
                        how = op.get("how", "long")
                        newname = op["name"] if op["name"] not in model else t
                        if how == "long" or nrows < 2 or newname in model:
                            # (overwriting an existing title takes anything of the right length by design: only the length is
                            # an argument error there)
                            cf.addcolumn(np.zeros(bad), newname)
                        elif how == "ragged":
                            cf.addcolumn([[1.0, 2.0]] + [[3.0]] * (nrows - 1), newname)     # nrows entries, but no column
                        elif how == "str":
                            cf.addcolumn("x" * nrows, newname)
                        elif how == "set":
                            cf.addcolumn(set(range(nrows)), newname)
                        else:
                            cf.addcolumn(dict((q, q) for q in range(nrows)), newname)
                    elif name == "invalid_reorder":
                        how = op.get("how", "long")
                        if how in ("long", "str", "dict") or nrows < 4:
                            cf.reorder(np.arange(bad) % nrows)                  # too many indices
                        elif how == "ragged":
                            cf.reorder(np.arange(nrows - 1))                    # too few (more than one: no broadcasting)
                        else:
                            msk = np.zeros(nrows, bool)
                            msk[:2 + op["extra"] % (nrows - 2)] = True         # a boolean mask passed by mistake
                            if msk.all():
                                return None
                            cf.reorder(msk)
                    elif name == "invalid_filter":
                        cf.filter(np.ones(bad, bool))
                    elif name == "invalid_setattr":
                        setattr(cf, t, np.zeros(bad))
                    elif name == "invalid_set_bigarray":
                        cols = [np.zeros(bad)] + [np.zeros(nrows) for _ in titles[1:]]
                        if len(cols) == 1:
                            cols = [np.zeros(bad)]
                            return None
                        cf.bigarray = cols
                elif name == "reread":
                    # the object is used again to read a file (HDF5 or text) written from other content: afterwards it holds
                    # what the file holds
                    rr = random.Random(op["pseed"])
                    tt = rr.sample(NAMES, rr.randint(1, 5))
                    n2 = nrows if (rr.random() < 0.5 and nrows > 0) else rr.randint(1, 9)
                    cols = [(t2, [float(rr.randint(-30, 30)) + rr.choice([0.0, 0.25, 0.5]) for _ in range(n2)]) for t2 in tt]
                    src = self.cfm.colfile_from_dict(collections.OrderedDict((t2, np.array(v, float)) for t2, v in cols))
                    if op["how"] == "hdf":
                        p = os.path.join(self.scratch, "c17_rr_%d.h5" % os.getpid())
                        if os.path.exists(p):
                            os.remove(p)
                        self.cfm.colfile_to_hdf(src, p, name="peaks")
                        cf.readfile(p)
                        want = dict((t2, fl(np.array(v, float).astype(np.int64)) if t2 in self.cfm.INTS else fl(v)) for t2, v in cols)
                        if sorted(cf.titles) != sorted(want):
                            return self.V("titles", "object %d after reading an HDF5 file with titles %s has titles %s" % (k, sorted(want), list(cf.titles)))
                        new_model = collections.OrderedDict((t2, want[t2]) for t2 in cf.titles)
                    else:
                        p = os.path.join(self.scratch, "c17_rr_%d.flt" % os.getpid())
                        src.writefile(p)
                        cf.readfile(p)
                        tab = np.loadtxt(p, comments="#", ndmin=2)
                        new_model = collections.OrderedDict((t2, fl(tab[:, q])) for q, (t2, v) in enumerate(cols))
                    self.rereads = getattr(self, "rereads", 0) + 1
                elif name == "load_malformed":
                    # an HDF5 peaks group in which one dataset has another length (a file written by other software, or cut
                    # short): loading it must be refused, or give a table whose columns all have nrows entries
                    import h5py
                    rr = random.Random(op["pseed"])
                    tt = rr.sample(NAMES, rr.randint(2, 5))
                    n2 = rr.randint(2, 9)
                    p = os.path.join(self.scratch, "c17_bad_%d.h5" % os.getpid())
                    if os.path.exists(p):
                        os.remove(p)
                    odd = rr.randrange(len(tt))
                    with h5py.File(p, "w") as h:
                        gq = h.create_group("peaks")
                        gq.attrs["ImageD11_type"] = "peaks"
                        for q, t2 in enumerate(tt):
                            gq.create_dataset(t2, data=np.arange(n2 + (rr.choice([-1, 1, 3]) if q == odd else 0), dtype=float))
                    self.malformed = getattr(self, "malformed", 0) + 1
                    try:
                        bad = self.cfm.colfile_from_hdf(p, name="peaks")
                    except Exception:
                        bad = None
                    if bad is not None:
                        for t2 in bad.titles:
                            if len(bad.getcolumn(t2)) != bad.nrows or len(getattr(bad, t2)) != bad.nrows:
                                return self.V("not-rectangular", "an HDF5 group with datasets of unequal length was loaded without complaint: "
                                                                 "column '%s' has %d entries, nrows is %d" % (t2, len(bad.getcolumn(t2)), bad.nrows))
                elif name == "set_nonfinite":
                    # a float column gets not-a-number / infinite entries (failed fits, divisions by zero), written in place
                    if not titles or nrows == 0:
                        return None
                    t = pick_title(op["col"])
                    colv = cf.getcolumn(t)
                    if not isinstance(colv, np.ndarray) or colv.dtype != np.float64 or id(cf) in self.aliased:
                        return None
                    for q, val in zip(op["rows"], op["what"]):
                        x = {"nan": float("nan"), "inf": float("inf"), "-inf": float("-inf")}[val]
                        colv[q % nrows] = x
                        new_model[t][q % nrows] = x
                elif name == "keys":
                    if list(cf.keys()) != titles:
                        return self.V("titles", "keys() %s vs %s" % (cf.keys(), titles))
                else:
                    raise ValueError("unknown op " + name)
        except Exception as e:
            # a clean refusal is fine; the invariants decide whether the object was left half-modified
            self.raised += 1
            v = self.invariants("%s (which raised %s: %s)" % (json.dumps(op), type(e).__name__, str(e)[:80]))
            if v is not None:
                v["class"] = "half-applied:" + v["class"]
                v["key"] = "columnfile:half-applied:" + name
            return v
        self.objs[k][1] = new_model
        if extra_obj is not None:
            self.objs.append(extra_obj)
        return self.invariants(json.dumps(op))


def gen_ops(rnd, nops):
    ops = []
    weights = [("addcolumn_new", 5), ("setitem_new", 2), ("addcolumn_existing", 3), ("setcolumn", 2), ("setitem_array", 2),
               ("setattr_array", 3), ("setitem_scalar", 2), ("setattr_scalar", 3), ("addcolumn_from_existing", 2),
               ("write_attr", 3), ("write_item", 2), ("write_getcolumn", 2), ("filter", 4), ("removerows", 3), ("sortby", 3),
               ("reorder", 3), ("copy", 2), ("copyrows", 3), ("get_bigarray", 4), ("set_bigarray", 2), ("keys", 1),
               ("invalid_addcolumn", 2), ("invalid_filter", 1), ("invalid_setattr", 1), ("invalid_set_bigarray", 1), ("invalid_reorder", 1), ("reread", 2), ("load_malformed", 1), ("set_nonfinite", 2)]
    names = [n for n, w in weights for _ in range(w)]
    for _ in range(nops):
        n = rnd.choice(names)
        op = {"op": n, "obj": rnd.randint(0, 2)}
        if n.startswith("invalid_"):
            op["extra"] = rnd.randint(0, 3)
            op["col"] = rnd.randint(0, 11)
            op["name"] = rnd.choice(NAMES)
            op["how"] = rnd.choice(["long", "long", "ragged", "str", "set", "dict"])
        if n == "load_malformed":
            op["pseed"] = rnd.getrandbits(32)
        if n == "set_nonfinite":
            op["rows"] = [rnd.randint(0, 40) for _ in range(rnd.randint(1, 2))]
            op["what"] = [rnd.choice(["nan", "nan", "inf", "-inf"]) for _ in op["rows"]]
        if n == "reread":
            op["pseed"] = rnd.getrandbits(32)
            op["how"] = rnd.choice(["hdf", "hdf", "text"])
        if n in ("addcolumn_new", "setitem_new", "addcolumn_from_existing"):
            op["name"] = rnd.choice(NAMES)
            op["asarray"] = rnd.random() < 0.8
        if n in ("addcolumn_new", "setitem_new", "addcolumn_existing", "setcolumn", "setitem_array", "setattr_array"):
            op["vals"] = [float(rnd.randint(-20, 20)) + rnd.choice([0.0, 0.25, 0.5]) for _ in range(rnd.randint(1, 13))]
            op["dtype"] = rnd.choice(["f8", "f8", "f8", "i8", "f4", "bool", ">f8"])      # ">f8": big-endian, as some HDF5 files store them
            if op["dtype"] == "i8":
                op["vals"] = [float(int(v)) for v in op["vals"]]
            elif op["dtype"] == "bool":
                op["vals"] = [float(int(v) % 2) for v in op["vals"]]
        if n not in ("addcolumn_new", "setitem_new", "copy", "keys", "reorder", "set_bigarray", "get_bigarray"):
            op["col"] = rnd.randint(0, 11)
        if n in ("setitem_scalar", "setattr_scalar", "write_attr", "write_item", "write_getcolumn"):
            op["x"] = float(rnd.randint(-50, 50)) + 0.125
            op["row"] = rnd.randint(0, 40)
        if n in ("addcolumn_new", "setitem_new"):
            op["strided"] = rnd.choice([0, 0, 1, 2])
            op["readonly"] = rnd.random() < 0.1          # an array the caller protected (or a memory-mapped one)
        if n == "set_bigarray":
            op["order"] = rnd.choice(["C", "C", "T", "F"])
        if n == "filter":
            op["mask_style"] = rnd.choice(["bool", "bool", "int01", "truthy", "list"])
            op["mask"] = [rnd.random() < rnd.choice([0.0, 0.5, 0.8, 1.0]) for _ in range(rnd.randint(1, 13))]
        if n == "removerows":
            op["values"] = [float(rnd.randint(-20, 20)) + rnd.choice([0.0, 0.25]) for _ in range(rnd.randint(1, 3))]
            op["tol"] = rnd.choice([0, 0, 0.3, 1.1])
        if n in ("reorder", "set_bigarray"):
            op["pseed"] = rnd.getrandbits(32)
        if n == "set_bigarray":
            op["nrows"] = rnd.randint(1, 12)
            op["as2d"] = rnd.random() < 0.5
        if n == "copyrows":
            op["slice"] = rnd.random() < 0.5
            op["a"], op["b"] = rnd.randint(0, 20), rnd.randint(0, 20)
            op["rows"] = [rnd.randint(0, 40) for _ in range(rnd.randint(1, 6))]
        ops.append(op)
    return ops


class C17(object):
    id = "C17"
    engine = "histsim"
    time_keys = {"operations": "operations applied to the system and the model"}
    fault_keys = ["operations_that_raised", "invalid_arguments_injected", "caller_thread_runs", "py_switches"]
    tiers = {"quick": {"runs": 40000, "budget_s": 60, "selftest_every": 100, "fresh_selftest": 10},
             "thorough": {"runs": 9000000, "budget_s": 800, "selftest_every": 1000, "fresh_selftest": 20}}
    rule = ("one run = one history: initial columnfile (empty | dict-built | text-file-loaded | HDF-loaded) followed by "
            "1..40 operations drawn from addcolumn/setcolumn/__setitem__/__setattr__ (scalar, array)/in-place writes "
            "through each view/filter/removerows/sortby/reorder/copy/copyrows/get_bigarray/set_bigarray on up to three "
            "live objects; model and system compared after every operation; distinct = distinct set of model states "
            "reached in the history; non-trivial = at least 3 operations changed the model; also: reading an HDF5/text file into an object in use, and invalid arguments (wrong length, ragged, str/set/dict, wrong-length reorder) that must be refused without changing the object, big-endian and read-only columns, and (0.4 % of runs) 2-3 Python caller threads under the thread scheduler applying row operations to tables of their own")
    components = {"real": ["ImageD11.columnfile (columnfile, newcolumnfile, colfile_from_dict, colfile_to_hdf, colfile_from_hdf, "
                           "readfile, writefile)", "ImageD11.parameters", "h5py/libhdf5 and the file system (private directory)"],
                  "stub": ["nothing is stubbed; the operation generator and the reference model (ordered dict of lists) are /verif's"]}
    assumptions = ["operations are generated valid by precondition (right lengths, existing titles where required); "
                   "sortby only on columns with distinct keys",
                   "bigarray is compared when it is read (reading it changes the internal representation, so it is an "
                   "operation of the history, not part of the per-step invariant)"]

    def prepare(self, ctx):
        enginea.prepare_sim(ctx, import_imaged11=True)
        from ImageD11 import columnfile
        self.cfm = columnfile

    def gen(self, rs, ctx):
        rnd = random.Random(rs)
        if rnd.random() < 0.004:
            # 2-3 Python threads (seeded scheduler, pre-emption at the source lines of columnfile.py), each applying row operations
            # to a table OF ITS OWN (the per-grain worker pattern); tables of a realistic size
            nthr = rnd.choice([2, 2, 3])
            same_rows = rnd.random() < 0.6
            nr0 = rnd.choice([9000, 12000, 20000])
            return {"entry": "columnfile-threads", "seed": rnd.getrandbits(32),
                    "tables": [{"ncols": rnd.randint(2, 9), "nrows": nr0 if same_rows else rnd.choice([50, 9000, 17000]),
                                "ops": [rnd.choice(["filter", "filter", "removerows", "sortby", "reorder", "copyrows", "copy"])
                                        for _ in range(rnd.randint(1, 3))], "keep": rnd.choice([0.5, 0.5, 0.25])} for _ in range(nthr)],
                    "strategy": rnd.choice(["random", "random", "pct", "rr"]), "p_inv": rnd.choice([1, 2, 4, 8]),
                    "quantum": rnd.choice([1, 2, 5]), "pct_d": rnd.choice([1, 2, 3]), "sseed": rnd.getrandbits(48)}
        kind = rnd.choice(["empty", "dict", "dict", "text", "hdf"])
        ncols = rnd.randint(1, 4)
        nrows = rnd.randint(1, 10)
        titles = rnd.sample(NAMES, ncols)
        cols = [[t, [float(rnd.randint(-30, 30)) + rnd.choice([0.0, 0.5]) for _ in range(nrows)]] for t in titles]
        nops = rnd.choice([1, 2, 3, 4, 6, 8, 12, 20, 40])
        return {"entry": "columnfile-history", "init": {"kind": kind, "cols": cols}, "ops": gen_ops(rnd, nops)}

    def describe(self, desc):
        if desc["entry"] == "columnfile-threads":
            return dict(desc)
        return {"init": desc["init"], "ops": desc["ops"][:12], "n_ops": len(desc["ops"])}

    def exec_threads(self, desc, ctx):
        from pysched import pysched
        cfm = self.cfm
        g = np.random.default_rng(desc["seed"])
        jobs = []
        for t, tb in enumerate(desc["tables"]):
            nr, nc = tb["nrows"], tb["ncols"]
            # distinct values everywhere: column c of thread t holds t*1e7 + c*1e5 + a permutation of the row numbers
            cols = {NAMES[c]: (t * 1e7 + c * 1e5 + g.permutation(nr)).astype(float) for c in range(nc)}
            args = []
            nrr = nr
            for op in tb["ops"]:
                if op == "filter":
                    msk = np.zeros(nrr, bool)
                    msk[:int(nrr * tb["keep"])] = True      # the same number of rows survives in every thread's table
                    g.shuffle(msk)
                    args.append(msk)
                    nrr = int(msk.sum())
                elif op == "removerows":
                    args.append(NAMES[int(g.integers(0, nc))])
                    # values to remove are decided when the operation runs (they depend on the rows left)
                    nrr -= len(range(0, nrr, 3))
                elif op == "sortby":
                    args.append(NAMES[int(g.integers(0, nc))])
                elif op == "reorder":
                    args.append(g.permutation(nrr))
                elif op == "copyrows":
                    args.append(np.sort(g.choice(nrr, size=max(1, nrr // 2), replace=False)))
                    nrr = len(args[-1])
                else:
                    args.append(None)
            jobs.append((cols, tb["ops"], args))

        def model(cols, ops, args):
            cur = {k: v.copy() for k, v in cols.items()}
            for op, a in zip(ops, args):
                if op == "filter":
                    cur = {k: v[a] for k, v in cur.items()}
                elif op == "removerows":
                    vals = np.sort(cur[a])[::3]
                    keep = ~np.isin(cur[a], vals)
                    cur = {k: v[keep] for k, v in cur.items()}
                elif op == "sortby":
                    o = np.argsort(cur[a])
                    cur = {k: v[o] for k, v in cur.items()}
                elif op in ("reorder", "copyrows"):
                    cur = {k: v[a] for k, v in cur.items()}
            return cur

        def run_ops(cf, ops, args):
            for op, a in zip(ops, args):
                if op == "filter":
                    cf.filter(a)
                elif op == "removerows":
                    cf.removerows(a, list(np.sort(cf.getcolumn(a))[::3]))
                elif op == "sortby":
                    cf.sortby(a)
                elif op == "reorder":
                    cf.reorder(a)
                elif op == "copyrows":
                    cf = cf.copyrows(a)
                else:
                    cf = cf.copy()
            return cf
        want = [model(*j) for j in jobs]
        tabs = [cfm.colfile_from_dict({k: v.copy() for k, v in j[0].items()}) for j in jobs]
        results = [None] * len(jobs)
        sched = pysched.Sched(desc["sseed"], strategy=desc["strategy"], p_inv=desc["p_inv"], quantum=desc["quantum"], pct_d=desc["pct_d"],
                              pct_est=200 * len(jobs), step_cap=2000000, trace_files=[cfm.__file__], replay=desc.get("replay"))

        def worker(t):
            results[t] = run_ops(tabs[t], jobs[t][1], jobs[t][2])

        def main():
            ths = [sched.spawn(lambda t=t: worker(t), "py%d" % t) for t in range(len(jobs))]
            for th in ths:
                sched.join(th)
            return ths
        viol, ths = None, []

        def V(cls, detail):
            return {"class": cls, "key": "columnfile-threads:" + cls, "detail": detail}
        try:
            with contextlib.redirect_stdout(io.StringIO()):
                ths = sched.run(main) or []
        except pysched.Deadlock as e:
            viol = V("deadlock", str(e))
        except pysched.StepCap as e:
            viol = V("no-progress", str(e))
        for t, th in enumerate(ths):
            if viol is None and getattr(th, "exc", None) is not None:
                if runner.is_harness_exception(th.exc):
                    raise th.exc
                viol = V("raises", "thread %d of %d, working on a table of its own (ops %s): %s: %s" %
                         (t, len(jobs), jobs[t][1], type(th.exc).__name__, th.exc))
        for t in range(len(jobs)):
            if viol is not None:
                break
            cf = results[t]
            w = want[t]
            nw = len(next(iter(w.values())))
            if cf is None or cf.nrows != nw or list(cf.titles) != list(w.keys()):
                viol = V("not-rectangular", "thread %d of %d (ops %s): the table has nrows=%s and titles %s, expected %d rows" %
                         (t, len(jobs), jobs[t][1], getattr(cf, "nrows", None), getattr(cf, "titles", None), nw))
                break
            for k in w:
                got = np.asarray(cf.getcolumn(k))
                if got.shape != w[k].shape or not np.array_equal(got, w[k]) or not np.array_equal(np.asarray(getattr(cf, k)), w[k]):
                    viol = V("row-op-not-uniform", "%d Python threads, each on a table of its own: after %s column %s of thread %d's table "
                                                   "(%d entries, nrows %d) is not the selection of its own rows" %
                             (len(jobs), jobs[t][1], k, t, got.size, cf.nrows))
                    break
        opn = collections.Counter(op for j in jobs for op in j[1])
        meas = {"operations": sum(len(j[1]) for j in jobs), "ops": dict(opn), "operations_that_raised": 0, "invalid_arguments_injected": 0,
                "caller_thread_runs": 1, "py_steps": sched.steps, "py_switches": sched.switches}
        sig = enginea.sha(desc["seed"], sched.sched_sig())
        return {"digest": enginea.sha(sched.digest(), [sorted((k, enginea.sha(np.asarray(r.getcolumn(k)))) for k in r.titles) if r is not None else None
                                                      for r in results]),
                "sig": sig, "nontrivial": True, "viol": viol, "measures": meas}

    def execute(self, desc, ctx):
        if desc["entry"] == "columnfile-threads":
            return self.exec_threads(desc, ctx)
        m = Machine(self.cfm, ctx.scratch)
        viol = None
        done = 0
        with contextlib.redirect_stdout(io.StringIO()):
            viol = m.start(desc["init"])
        if viol is None:
            for op in desc["ops"]:
                viol = m.apply(op)
                done += 1
                if viol is not None:
                    viol["detail"] = "step %d/%d: %s" % (done, len(desc["ops"]), viol["detail"])
                    break
        opn = collections.Counter(op["op"] for op in desc["ops"][:done])
        meas = {"operations": done, "ops": dict(opn), "operations_that_raised": m.raised,
                "invalid_arguments_injected": getattr(m, "invalid_ops", 0),
                "objects_alive_at_end": len(m.objs), "init_kind": {desc["init"]["kind"]: 1},
                "model_states": len(m.states)}
        sig = enginea.sha(sorted(m.states))
        return {"digest": enginea.sha(sig, done, viol["class"] if viol else None), "sig": sig,
                "nontrivial": len(m.states) >= 3, "viol": viol, "measures": meas}

    def minimise(self, desc, viol, ctx):
        if desc["entry"] == "columnfile-threads":
            return desc
        cls = viol["class"]

        def test(ops):
            d = dict(desc)
            d["ops"] = ops
            r = self.execute(d, ctx)
            return r["viol"] is not None and r["viol"]["class"] == cls

        if not test(desc["ops"]):
            return desc
        d = dict(desc)
        d["ops"] = enginea.ddmin(desc["ops"], test, max_tests=600)
        # simpler start state if it still fails
        for kind in ("dict",):
            d2 = dict(d)
            d2["init"] = dict(d["init"], kind=kind)
            r = self.execute(d2, ctx)
            if r["viol"] is not None and r["viol"]["class"] == cls:
                d = d2
        return d


CHECK = C17()
if __name__ == "__main__":
    sys.exit(runner.main(CHECK))
