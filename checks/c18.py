#!/venv/bin/python
"""
C18 - saved peaks, parameters and grains read back as written.

Engine C (histsim) with the file seam.  A run is a history of save / load / re-save operations on named
slots in the run's private directory, for every on-disk format the property names: text column files
(with header parameters), HDF5 column files (new file, new group in an existing file, overwrite of an
existing group with the same or a different length / title set), parameter files, grain files (text and
HDF5), ubi files and sparse frames in HDF5 groups.  Every load re-reads from disk with no in-memory object
surviving ("restart").  Fault runs inject OSError(ENOSPC/EIO) into the k-th write() of a text writer through a
patched open() inside the module under test.

Model: a save that returns normally is ACKNOWLEDGED - the next load of that slot must equal what was saved, to
the precision documented for the format.  A save that raises is unacknowledged - the slot may hold the old or
partial content (a load may fail or return anything) until the next acknowledged save, after which it must read
back exactly that save.  Fault-free and fault-injecting histories are separate configurations.
"""
from __future__ import print_function
import os, sys, random, io, contextlib, collections, json, math, errno, builtins
sys.path.insert(0, os.path.dirname(os.path.dirname(os.path.abspath(__file__))))
import numpy as np
from common import runner, enginea

# documented print formats, written down independently of the library's own tables
FMT = {}
for _t in ["sc", "fc", "omega", "s_raw", "f_raw", "sigs", "sigf", "covsf", "sum_intensity", "avg_intensity", "IMax_int",
           "dety", "detz", "gx", "gy", "gz", "xl", "yl", "zl", "tth", "eta", "drlv2", "Min_o", "Max_o", "IMax_o"]:
    FMT[_t] = "f4"
for _t in ["U11", "U23", "U31", "UBI11", "UBI12", "UBI33", "U22"]:
    FMT[_t] = "f12"
for _t in ["Number_of_pixels", "IMax_f", "IMax_s", "Min_f", "Max_f", "Min_s", "Max_s", "spot3d_id", "h", "k", "l",
           "onfirst", "onlast", "labels", "Grain", "grainno", "npk2d"]:
    FMT[_t] = "int"
for _t in ["eps11", "eps22", "eps23", "eps12_s", "eps33_s", "sig11", "sig13", "sig23_s", "e11e11", "e22e22", "e12e12",
           "e11e22", "e23e12", "s33s33", "s11s11_s", "e13e13_s", "s22s13", "e33e33"]:
    FMT[_t] = "e4"
UNKNOWN = ["foo", "bar_1", "my_col", "Intensity2", "zzz", "a", "weight", "ds"]
ALLT = list(FMT.keys()) + UNKNOWN


def tol_for(title, v):
    f = FMT.get(title, "f6")
    av = abs(v)
    slack = 4e-16 * av + 1e-300
    if f == "f4":
        return 0.5e-4 + slack
    if f == "f12":
        return 0.5e-12 + slack
    if f == "f6":
        return 0.5e-6 + slack
    if f == "int":
        return 0.5 + slack
    if f == "e4":
        if v == 0:
            return 0.0
        return 0.5e-4 * 10.0 ** math.floor(math.log10(av)) * (1 + 1e-12) + slack
    raise ValueError(f)


def rel_sig(v, digits):
    if v == 0:
        return 1e-300
    return 0.5 * 10.0 ** (math.floor(math.log10(abs(v))) - digits + 1) * (1 + 1e-9)


def draw_value(rnd, title):
    f = FMT.get(title, "f6")
    if f == "int":
        # integer-typed titles usually hold whole numbers, but nothing rounds them before they are written: the text route
        # documents a precision of half a unit for them, the HDF5 route stores the integer part
        return float(rnd.choice([0, 1, -1, 7, 65535, rnd.randint(-10 ** 6, 10 ** 6), 2 ** 53, -(2 ** 31),
                                 round(rnd.uniform(-10 ** 6, 10 ** 6), 2), -0.999, 0.4, 224475.66]))
    mag = rnd.choice([1e-12, 1e-6, 1e-3, 0.1, 1.0, 12.0, 1e3, 1e6, 1e12])
    v = rnd.uniform(-1, 1) * mag
    return rnd.choice([v, v, v, 0.0, -0.0, float(rnd.randint(-5, 5)), mag])


class FaultyFile(object):
    def __init__(self, f, plan):
        self._f, self._plan = f, plan

    def write(self, s):
        self._plan["writes"] += 1
        if self._plan["writes"] == self._plan["at"]:
            self._plan["fired"] = 1
            if self._plan.get("torn"):
                self._f.write(s[:len(s) // 2])
            raise OSError(self._plan["errno"], os.strerror(self._plan["errno"]))
        return self._f.write(s)

    def __getattr__(self, n):
        return getattr(self._f, n)

    def __enter__(self):
        return self

    def __exit__(self, *a):
        self._f.close()
        return False

    def __iter__(self):
        return iter(self._f)


class C18(object):
    id = "C18"
    engine = "histsim"
    time_keys = {"load_checked": "loads compared with the model", "save_ack": "acknowledged saves"}
    fault_keys = ["fault_fired", "fault_configured", "save_refused", "load_of_unacknowledged"]
    tiers = {"quick": {"runs": 8000, "budget_s": 60, "selftest_every": 50, "fresh_selftest": 8},
             "thorough": {"runs": 2500000, "budget_s": 800, "selftest_every": 500, "fresh_selftest": 16}}
    rule = ("one run = a history of 2..14 save/load/re-save operations over 1..3 slots of one format family (text "
            "columnfile | hdf columnfile | parameters | grains text | grains hdf | ubi | sparse frame hdf), every load "
            "re-reading from disk; half of the text-writer histories inject a write error into the k-th write(); "
            "distinct = distinct (family, history digest); non-trivial = at least one acknowledged save was read back; also: text files around 1024/4096/8192 rows, sparse groups saved again in place, the mmap reader, parameter files through indexer.loadpars/savepars and hand-edited, re-saves with the signs of zeros flipped, metadata of every pixel array, grain lists of two phases in one HDF5 file, dashed header names, a foreign HDF5 peaks file read first")
    components = {"real": ["ImageD11.columnfile (writefile, readfile, colfile_to_hdf, colfileobj_to_hdf, colfile_from_hdf)",
                           "ImageD11.parameters (saveparameters, loadparameters, dumbtypecheck)",
                           "ImageD11.grain (write/read_grain_file, write/read_grain_file_h5)",
                           "ImageD11.indexing (write_ubi_file, readubis)", "ImageD11.sparseframe (to_hdf_group, from_hdf_group)",
                           "h5py/libhdf5 and the file system of the private run directory"],
                  "stub": ["open() as seen by columnfile/parameters/grain/indexing in fault runs (k-th write raises ENOSPC/EIO, "
                           "optionally after a torn half write)", "HDF5 writes are NOT fault injected (no libhdf5 seam)"]}
    assumptions = ["documented precision: FLOATS titles 4 decimals, U/UBI titles 12 decimals, integer titles integer, eps/sig "
                   "titles 5 significant digits (%.4e), unknown titles 6 decimals; UBI 9 and translation 6 significant digits "
                   "in text grain files; ubi files 6 decimals; HDF5 exact",
                   "strings that parse as numbers, contain whitespace, or parameter names containing '-' are not generated",
                   "saving into an existing HDF5 group that refuses (different length, colfileobj_to_hdf/write_grain_file_h5 "
                   "on an existing group) is an unacknowledged save: the old content must stay readable"]

    def prepare(self, ctx):
        enginea.prepare_sim(ctx, import_imaged11=True)
        with contextlib.redirect_stdout(io.StringIO()):
            from ImageD11 import columnfile, parameters, grain, indexing, sparseframe
        self.m = {"columnfile": columnfile, "parameters": parameters, "grain": grain, "indexing": indexing, "sparseframe": sparseframe}
        import h5py, logging
        logging.disable(logging.CRITICAL)  # the parameter reader logs every torn line it meets
        self.h5py = h5py

    # ------------------------------------------------------------------ generation
    def gen(self, rs, ctx):
        rnd = random.Random(rs)
        fam = rnd.choice(["cf_text", "cf_text", "cf_hdf", "cf_hdf", "pars", "grains_text", "grains_h5", "ubi", "sparse"])
        nops = rnd.choice([2, 3, 4, 6, 10, 14])
        faults = fam in ("cf_text", "pars", "grains_text", "ubi") and rnd.random() < 0.5
        ops = []
        for _ in range(nops):
            kind = rnd.choice(["save", "save", "load", "load", "resave"] + (["edit"] if fam == "pars" else []))
            op = {"op": kind, "slot": rnd.randint(0, 2), "seed": rnd.getrandbits(40)}
            if kind == "resave":
                op["to"] = rnd.randint(0, 2)
            if kind in ("save", "resave") and faults and rnd.random() < 0.35:
                op["fault"] = {"at": rnd.choice([1, 1, 2, 3, 5, 8, 13]), "errno": rnd.choice([errno.ENOSPC, errno.EIO]),
                               "torn": rnd.random() < 0.5}
            if fam in ("cf_text", "cf_hdf") and kind == "load":
                op["reuse_reader"] = rnd.random() < 0.4   # read into a columnfile object that already read another file
            if fam == "sparse" and kind in ("save", "resave"):
                op["overwrite"] = rnd.random() < 0.5   # save into the group that is already there
            if fam == "cf_hdf" and kind == "save":
                op["flipzeros"] = rnd.random() < 0.3
            if fam == "cf_text" and kind == "save":
                op["permute_titles"] = rnd.random() < 0.3
            if fam == "pars" and kind == "resave":
                op["via_indexer"] = rnd.random() < 0.4    # the file goes through indexer.loadpars / savepars
            if fam == "cf_hdf" and kind == "load":
                op["mmap"] = rnd.random() < 0.25          # read with mmap_h5colf
            if fam == "grains_h5":
                op["group"] = rnd.choice(["grains", "grains", "grains", "phaseB"])     # the grains of a second phase go into the same file
            if fam == "cf_hdf":
                op["group"] = rnd.choice(["peaks", "peaks", "g2"])
                op["variant"] = rnd.choice(["to_hdf", "to_hdf", "obj_to_hdf"])
                op["byname"] = rnd.random() < 0.7
            ops.append(op)
        ops.append({"op": "load", "slot": 0, "seed": 0})
        ops.append({"op": "load", "slot": 1, "seed": 0})
        return {"entry": "files/" + fam, "family": fam, "ops": ops, "faults": faults,
                "foreign_read": (rnd.getrandbits(31) + 1) if (fam in ("cf_text", "cf_hdf") and rnd.random() < 0.15) else 0}

    def describe(self, desc):
        return {"family": desc["family"], "faults": desc["faults"], "ops": desc["ops"][:10]}

    # ------------------------------------------------------------------ payload generators
    def make_payload(self, fam, seed):
        rnd = random.Random(seed)
        if fam in ("cf_text", "cf_hdf"):
            nt = rnd.randint(1, 6)
            titles = rnd.sample(ALLT, nt)
            nrows = rnd.randint(1, 6)
            u = rnd.random()
            if u < 0.05:
                nrows = rnd.randint(7, 300)
            elif u < 0.08:
                # sizes around the block sizes a reader or writer might work in
                nrows = rnd.choice([1023, 1024, 1025, 4095, 4096, 4097, 5000, 8191, 8192, 8193, 12289])
                titles = titles[:3]
            cols = [[t, [draw_value(rnd, t) for _ in range(nrows)]] for t in titles]
            pars = self.make_payload("pars", seed + 1)["pars"] if rnd.random() < 0.7 else {}
            pars.pop("filename", None)      # the reader of a columnfile sets this header entry itself, by design
            if fam == "cf_text" and rnd.random() < 0.3:
                # header entries written by other programs: names with a dash are kept as they are by the columnfile reader
                pars["sample-id"] = rnd.choice(["a-1", "S2", "x"])
                if rnd.random() < 0.5:
                    pars["fit-tolerance"] = rnd.choice([0.05, 0.1])
            return {"cols": cols, "pars": pars}
        if fam == "pars":
            names = rnd.sample(["distance", "wavelength", "o11", "cell_lattice_[P,A,B,C,I,F,R]", "fit_tolerance", "t_x", "name_1",
                                "file_name", "chi", "cell__a", "omegasign", "npks", "x"] + (["filename"] if fam == "pars" else []),
                               rnd.randint(1, 7))
            pars = {}
            for n in names:
                k = rnd.choice(["int", "float", "float", "str"])
                if k == "int":
                    pars[n] = rnd.choice([0, 1, -1, 225, rnd.randint(-10 ** 9, 10 ** 9), 2 ** 53, 2 ** 53 + 1, 1234567890123456789,
                                          -(2 ** 62) - 3])
                elif k == "float":
                    pars[n] = rnd.choice([0.0, -0.0, 1.0, 90.0, 1e12, 1e22, 1e-12, 3.0000000001, rnd.uniform(-1, 1),
                                          rnd.uniform(-1e6, 1e6), 5e-324, 0.1 + 0.2])
                else:
                    pars[n] = rnd.choice(["P", "F", "I", "frelon", "file.edf", "/data/x_y-z.h5", "a,b", "None", "true", "x=1"])
            return {"pars": pars}
        if fam in ("grains_text", "grains_h5", "ubi"):
            n = rnd.choice([1, 1, 2, 3, 5, 11, 12])
            grains = []
            g = np.random.default_rng(seed)
            for i in range(n):
                q, _ = np.linalg.qr(g.normal(size=(3, 3)))
                if np.linalg.det(q) < 0:
                    q[:, 0] *= -1
                ubi = (np.diag(g.uniform(2, 30, 3)) @ q.T) * rnd.choice([1, 1, 1e-3, 1e3])
                gr = {"ubi": ubi.tolist()}
                if rnd.random() < 0.6:
                    gr["translation"] = (g.normal(0, 1, 3) * rnd.choice([1e-6, 1.0, 500.0, 1e12])).tolist()
                if rnd.random() < 0.6:
                    gr["name"] = rnd.choice(["0:peaks.flt", "grain_%d" % i, "x"])
                if rnd.random() < 0.6:
                    gr["npks"] = rnd.choice([0, 1, 17, 123456])
                grains.append(gr)
            return {"grains": grains}
        if fam == "sparse":
            g = np.random.default_rng(seed)
            ns, nf = rnd.randint(1, 12), rnd.randint(1, 12)
            gm = g
            if rnd.random() < 0.7:
                # one of two recurring pixel sets, so that a later save into the same group often has the same length
                gm = np.random.default_rng(seed % 2)
                ns, nf = 3 + seed % 2, 5
            m = gm.random((ns, nf)) < 0.4
            if not m.any():
                m[0, 0] = True
            r, c = np.nonzero(m)
            px = {"intensity": (g.random(len(r)) * 1000).astype(rnd.choice(["f4", "f8", "u2"])).tolist()}
            if rnd.random() < 0.5:
                px["labels"] = g.integers(0, 5, len(r)).tolist()
            return {"shape": [ns + rnd.randint(0, 3), nf + rnd.randint(0, 3)], "row": r.tolist(), "col": c.tolist(), "pixels": px,
                    "dt": {"intensity": rnd.choice(["float32", "float64", "uint16"]), "labels": "int32"},
                    "itype": rnd.choice(["uint16", "uint16", "uint32"]),
                    "meta": rnd.random() < 0.5}
        raise ValueError(fam)

    # ------------------------------------------------------------------ comparisons
    def cmp_pars(self, want, got, where):
        for n, v in want.items():
            if n not in got:
                return "%s: parameter %s lost" % (where, n)
            gv = got[n]
            if type(gv) is not type(v) and not (isinstance(v, (int, float)) and isinstance(gv, (np.floating, np.integer))):
                return "%s: parameter %s = %r came back as %r (%s instead of %s)" % (where, n, v, gv, type(gv).__name__, type(v).__name__)
            if isinstance(v, float):
                if not (gv == v and math.copysign(1, gv) == math.copysign(1, v)):
                    return "%s: parameter %s = %r came back as %r" % (where, n, v, gv)
            elif gv != v:
                return "%s: parameter %s = %r came back as %r" % (where, n, v, gv)
        extra = set(got) - set(want)
        if extra:
            return "%s: parameters appeared that were not saved: %s" % (where, sorted(extra)[:5])
        return None

    def cmp_cf(self, want, cf, exact, where):
        wt = [t for t, _ in want["cols"]]
        if exact:
            if sorted(cf.titles) != sorted(wt):
                return "%s: titles %s, saved %s" % (where, list(cf.titles), wt)
        elif list(cf.titles) != wt:
            return "%s: titles/order %s, saved %s" % (where, list(cf.titles), wt)
        nrows = len(want["cols"][0][1])
        if cf.nrows != nrows:
            return "%s: %d rows, saved %d" % (where, cf.nrows, nrows)
        for t, vals in want["cols"]:
            got = np.asarray(cf.getcolumn(t))
            if len(got) != nrows:
                return "%s: column %s has %d entries" % (where, t, len(got))
            for i, v in enumerate(vals):
                if exact:
                    if FMT.get(t) == "int":
                        if (got.dtype.kind not in "iu" and not getattr(self, "values_only", False)) or float(got[i]) != float(int(v)):
                            return "%s: integer column %s row %d: saved %r, read %r (dtype %s)" % (where, t, i, v, got[i], got.dtype)
                    elif not (float(got[i]) == v) or (v == 0 and math.copysign(1.0, float(got[i])) != math.copysign(1.0, v)):
                        return "%s: column %s row %d: saved %r, read %r" % (where, t, i, v, float(got[i]))
                else:
                    if not (abs(float(got[i]) - v) <= tol_for(t, v)):
                        return "%s: column %s row %d: saved %r, read %r (documented precision %s allows %.3g)" % (
                            where, t, i, v, float(got[i]), FMT.get(t, "f6"), tol_for(t, v))
        return None

    def cmp_grains(self, want, got, kind, where):
        if len(got) != len(want):
            return "%s: %d grains read, %d saved" % (where, len(got), len(want))
        for i, (w, g) in enumerate(zip(want, got)):
            wu = np.array(w["ubi"])
            gu = np.asarray(g if kind == "ubi" else g.ubi)
            for a, b in zip(wu.ravel(), gu.ravel()):
                lim = 0.0 if kind == "h5" else (0.5e-6 + 1e-15 * abs(a) if kind == "ubi" else rel_sig(a, 9))
                if not abs(a - b) <= lim:
                    return "%s: grain %d (position in the list) UBI element saved %r read %r" % (where, i, a, b)
            if kind == "ubi":
                continue
            wt = w.get("translation")
            gt = getattr(g, "translation", None)
            if wt is None:
                if gt is not None and np.any(np.asarray(gt) != 0):
                    return "%s: grain %d had no translation, read %s" % (where, i, gt)
            else:
                if gt is None:
                    return "%s: grain %d translation lost" % (where, i)
                for a, b in zip(wt, gt):
                    lim = 0.0 if kind == "h5" else rel_sig(a, 6)
                    if not abs(a - b) <= lim:
                        return "%s: grain %d translation saved %r read %r" % (where, i, a, b)
            if "name" in w:
                gn = getattr(g, "name", None)
                if gn is None or str(gn).strip() != w["name"]:
                    return "%s: grain %d name saved %r read %r" % (where, i, w["name"], gn)
            if "npks" in w:
                gp = getattr(g, "npks", None)
                if gp is None or int(gp) != w["npks"]:
                    return "%s: grain %d npks saved %r read %r" % (where, i, w["npks"], gp)
        return None

    # ------------------------------------------------------------------ execution
    def execute(self, desc, ctx):
        fam = desc["family"]
        M = self.m
        d = os.path.join(ctx.scratch, "c18_%d" % os.getpid())
        os.makedirs(d, exist_ok=True)
        for f in os.listdir(d):
            os.remove(os.path.join(d, f))
        ext = {"cf_text": "flt", "cf_hdf": "h5", "pars": "par", "grains_text": "map", "grains_h5": "h5", "ubi": "ubi", "sparse": "h5"}[fam]
        path = lambda s: os.path.join(d, "slot%d.%s" % (s, ext))
        # model: slot (and group for hdf) -> {"ack": payload or None, "dirty": bool}
        model = {}
        viol = None
        counts = collections.Counter()
        hist = []
        if desc.get("foreign_read") and fam in ("cf_text", "cf_hdf"):
            # before the history: the process reads a peaks file written by another program, whose integer-typed datasets carry
            # titles this library knows nothing about; it must read back as it is (and leave later saves alone)
            fp_ = os.path.join(d, "foreign.h5")
            gq_ = np.random.default_rng(desc["foreign_read"])
            with self.h5py.File(fp_, "w") as h_:
                g_ = h_.create_group("peaks")
                nfr_ = 7
                fvals_ = {}
                for t_ in UNKNOWN:
                    fvals_[t_] = gq_.integers(0, 200, nfr_).astype(gq_.choice(["uint8", "int32", "int64"]))
                    g_.create_dataset(t_, data=fvals_[t_])
                g_.create_dataset("omega", data=gq_.random(nfr_))
            try:
                with contextlib.redirect_stdout(io.StringIO()):
                    cfq_ = M["columnfile"].colfile_from_hdf(fp_, name="peaks")
                for t_ in UNKNOWN:
                    if not np.array_equal(np.asarray(cfq_.getcolumn(t_), float), fvals_[t_].astype(float)):
                        viol = {"class": "readback-differs", "key": "files:%s:foreign-readback-differs" % fam,
                                "detail": "a peaks group written with h5py (integer dataset %s) does not read back with its values" % t_}
                counts["foreign_files_read_first"] += 1
            except Exception as e:
                if runner.is_harness_exception(e):
                    raise
                viol = {"class": "load-raises", "key": "files:%s:foreign-load-raises" % fam,
                        "detail": "reading a peaks group written with h5py raised %s: %s" % (type(e).__name__, e)}
            os.remove(fp_)

        def V(cls, detail):
            return {"class": cls, "key": "files:%s:%s" % (fam, cls), "detail": detail}

        def key_of(op):
            return (op["slot"], op.get("group", "")) if fam in ("cf_hdf", "grains_h5") else (op["slot"], "")

        def do_save(op, payload, slot):
            """returns True if acknowledged"""
            p = path(slot)
            plan = None
            mods = []
            if op.get("fault"):
                plan = dict(op["fault"], writes=0, fired=0)

                def fopen(name, mode="r", *a, **k):
                    f = builtins.open(name, mode, *a, **k)
                    return FaultyFile(f, plan) if ("w" in mode or "a" in mode) else f
                for mn in ("columnfile", "parameters", "grain", "indexing"):
                    M[mn].open = fopen
                    mods.append(mn)
            try:
                with contextlib.redirect_stdout(io.StringIO()):
                    if fam == "cf_text":
                        cf = M["columnfile"].colfile_from_dict(collections.OrderedDict((t, np.array(v, float)) for t, v in payload["cols"]))
                        cf.parameters = M["parameters"].parameters(**payload["pars"])
                        cf.writefile(p)
                    elif fam == "cf_hdf":
                        cf = M["columnfile"].colfile_from_dict(collections.OrderedDict((t, np.array(v, float)) for t, v in payload["cols"]))
                        cf.filename = op["group"]
                        if op["variant"] == "to_hdf":
                            M["columnfile"].colfile_to_hdf(cf, p, name=op["group"])
                        else:
                            M["columnfile"].colfileobj_to_hdf(cf, p, name=op["group"])
                    elif fam == "pars":
                        M["parameters"].parameters(**payload["pars"]).saveparameters(p)
                    elif fam in ("grains_text", "grains_h5"):
                        gl = []
                        for w in payload["grains"]:
                            g = M["grain"].grain(np.array(w["ubi"]), translation=None if "translation" not in w else np.array(w["translation"]))
                            if "name" in w:
                                g.name = w["name"]
                            if "npks" in w:
                                g.npks = w["npks"]
                            gl.append(g)
                        if fam == "grains_text":
                            M["grain"].write_grain_file(p, gl)
                        else:
                            M["grain"].write_grain_file_h5(p, gl, group_name=op.get("group", "grains"))
                    elif fam == "ubi":
                        M["indexing"].write_ubi_file(p, [np.array(w["ubi"]) for w in payload["grains"]])
                    elif fam == "sparse":
                        px = {n: np.array(v, payload["dt"][n]) for n, v in payload["pixels"].items()}
                        it_ = np.dtype(payload.get("itype", "uint16"))
                        spf = M["sparseframe"].sparse_frame(np.array(payload["row"], it_), np.array(payload["col"], it_),
                                                            tuple(payload["shape"]), itype=it_, pixels=px)
                        if payload["meta"]:
                            spf.meta["intensity"] = {"threshold": 3.5}
                            if "labels" in px:
                                spf.meta["labels"] = {"nlabel": int(max(payload["pixels"]["labels"]))}
                        if os.path.exists(p) and not op.get("overwrite"):
                            os.remove(p)
                        with self.h5py.File(p, "a") as h:
                            spf.to_hdf_group(h.require_group("frame"))
                return True, None
            except Exception as e:
                return False, e
            finally:
                for mn in mods:
                    del M[mn].open
                if plan is not None:
                    counts["fault_fired"] += plan["fired"]
                    counts["fault_configured"] += 1

        reader = {}

        def do_load(op, slot):
            p = path(slot)
            with contextlib.redirect_stdout(io.StringIO()):
                if fam in ("cf_text", "cf_hdf") and op.get("reuse_reader") and "obj" in reader and \
                        (fam == "cf_text" or len(hdf_groups_in(slot)) == 1):
                    counts["loads_into_a_used_reader_object"] += 1
                    reader["obj"].readfile(p)
                    return reader["obj"]
                if fam == "cf_text":
                    reader["obj"] = M["columnfile"].columnfile(p)
                    return reader["obj"]
                if fam == "cf_hdf" and op.get("mmap"):
                    counts["mmap_loads"] += 1
                    self.values_only = True     # colfile_from_dict stores the mapped columns in one float array
                    return M["columnfile"].mmap_h5colf(p, path=op.get("group", "peaks"))
                if fam == "cf_hdf":
                    if len(hdf_groups_in(slot)) == 1 and op.get("reuse_reader"):
                        reader["obj"] = M["columnfile"].columnfile(p)  # the magic-number route of readfile
                        return reader["obj"]
                    # "the sole group" is only defined when the file holds exactly one
                    byname = op.get("byname", True) or len(hdf_groups_in(slot)) != 1
                    return M["columnfile"].colfile_from_hdf(p, name=op.get("group") if byname else None)
                if fam == "pars":
                    pr = M["parameters"].parameters()
                    pr.loadparameters(p)
                    return pr
                if fam == "grains_text":
                    return M["grain"].read_grain_file(p)
                if fam == "grains_h5":
                    return M["grain"].read_grain_file_h5(p, group_name=op.get("group", "grains"))
                if fam == "ubi":
                    return M["indexing"].readubis(p)
                if fam == "sparse":
                    with self.h5py.File(p, "r") as h:
                        return M["sparseframe"].from_hdf_group(h["frame"])

        def compare(payload, obj, where):
            if fam == "cf_text":
                e = self.cmp_cf(payload, obj, False, where)
                return e or self.cmp_pars(payload["pars"], {k: v for k, v in obj.parameters.parameters.items() if k != "filename"}, where)
            if fam == "cf_hdf":
                return self.cmp_cf(payload, obj, True, where)
            if fam == "pars":
                return self.cmp_pars(payload["pars"], obj.parameters, where)
            if fam == "grains_text":
                return self.cmp_grains(payload["grains"], obj, "text", where)
            if fam == "grains_h5":
                return self.cmp_grains(payload["grains"], obj, "h5", where)
            if fam == "ubi":
                return self.cmp_grains(payload["grains"], obj, "ubi", where)
            if fam == "sparse":
                if tuple(int(x) for x in obj.shape) != tuple(payload["shape"]):
                    return "%s: shape %s vs %s" % (where, obj.shape, payload["shape"])
                if list(obj.row) != payload["row"] or list(obj.col) != payload["col"]:
                    return "%s: coordinates differ" % where
                if not self.lenient_dtype and np.asarray(obj.row).dtype != np.dtype(payload.get("itype", "uint16")):
                    return "%s: index type saved as %s, read as %s" % (where, payload.get("itype", "uint16"), np.asarray(obj.row).dtype)
                for n, v in payload["pixels"].items():
                    if n not in obj.pixels:
                        return "%s: pixel array %s lost" % (where, n)
                    a = np.array(v, payload["dt"][n])
                    want_meta = {} if not payload["meta"] else ({"threshold": 3.5} if n == "intensity" else {"nlabel": int(max(v))})
                    for mk, mv in want_meta.items():
                        if mk not in obj.meta.get(n, {}) or obj.meta[n][mk] != mv:
                            return "%s: metadata %s=%r of pixel array %s came back as %r" % (where, mk, mv, n, obj.meta.get(n, {}).get(mk))
                    if (obj.pixels[n].dtype != a.dtype and not self.lenient_dtype) or len(obj.pixels[n]) != len(a) or \
                            (obj.pixels[n] != a).any():
                        return "%s: pixel array %s differs (dtype %s vs %s)" % (where, n, obj.pixels[n].dtype, a.dtype)
                return None

        def hdf_groups_in(slot):
            return [k for k in model if k[0] == slot]

        for step, op in enumerate(desc["ops"]):
            k = key_of(op)
            st = model.get(k)
            if op["op"] == "edit":
                # a parameter file edited by hand: an empty line or a stray word somewhere in the middle; every well-formed
                # line must still be read
                if fam == "pars" and st is not None and st["ack"] is not None and not st["dirty"]:
                    with open(path(op["slot"])) as fh:
                        lines = fh.readlines()
                    lines.insert(op["seed"] % max(1, len(lines)), "\n" if op["seed"] % 2 else "orphan\n")
                    with open(path(op["slot"]), "w") as fh:
                        fh.writelines(lines)
                    counts["hand_edited_parameter_files"] += 1
                continue
            if op["op"] == "save":
                payload = self.make_payload(fam, op["seed"])
                if op.get("permute_titles") and fam == "cf_text" and st is not None and st["ack"] is not None and len(st["ack"]["cols"]) > 1:
                    # the table written before, with its columns in another order (as it comes back from an HDF5 file)
                    cols_ = list(st["ack"]["cols"])
                    random.Random(op["seed"]).shuffle(cols_)
                    payload = {"cols": cols_, "pars": st["ack"].get("pars", {})}
                    counts["resaves_with_permuted_titles"] += 1
                if op.get("flipzeros") and fam == "cf_hdf" and st is not None and st["ack"] is not None and not st["dirty"]:
                    # the same table again, only the signs of its zeros changed (a column multiplied by -1)
                    payload = {"cols": [[t_, [(-x_ if x_ == 0 else x_) for x_ in v_]] for t_, v_ in st["ack"]["cols"]],
                               "pars": st["ack"].get("pars", {})}
                    counts["resaves_with_zero_signs_flipped"] += 1
                ok, err = do_save(op, payload, op["slot"])
                counts["save_ack" if ok else "save_refused"] += 1
                hist.append(("save", k, ok))
                if ok:
                    if fam == "cf_hdf" and st and st["ack"] is not None and op["variant"] == "to_hdf":
                        # overwrite of an existing group: titles saved earlier and not saved now must not survive
                        pass
                    model[k] = {"ack": payload, "dirty": False}
                    if fam == "sparse":
                        # saved into a group that already held a frame: the values must come back, the stored type may be
                        # the (wider) one of the dataset that was there
                        model[k]["over"] = bool(op.get("overwrite") and st is not None)
                        counts["sparse_overwrites_ack"] += 1 if model[k]["over"] else 0
                else:
                    if st is None:
                        model[k] = {"ack": None, "dirty": True}
                    else:
                        # refused saves must leave HDF content as it was; text writers may have destroyed the file
                        if fam in ("cf_text", "pars", "grains_text", "ubi"):
                            st["dirty"] = True
                        if fam == "sparse" and op.get("overwrite"):
                            # h5py refuses a dataset of another length or a type that does not fit (TypeError): the caller is
                            # told, the group's content counts as unacknowledged from here on
                            st["dirty"] = True
                            counts["sparse_overwrites_refused"] += 1
                            continue
                    if not op.get("fault") and fam in ("cf_text", "pars", "grains_text", "ubi", "sparse"):
                        viol = V("save-raises", "step %d: saving a valid object raised %s: %s" % (step, type(err).__name__, err))
                        break
                    if not op.get("fault") and fam in ("cf_hdf", "grains_h5") and (st is None or st["ack"] is None):
                        viol = V("save-raises", "step %d: saving into a fresh slot raised %s: %s" % (step, type(err).__name__, err))
                        break
            elif op["op"] in ("load", "resave"):
                if st is None or (st["ack"] is None):
                    continue
                if st["dirty"]:
                    # unacknowledged content: anything may come back, but nothing is checked
                    try:
                        do_load(op, op["slot"])
                    except Exception:
                        pass
                    counts["load_of_unacknowledged"] += 1
                    continue
                try:
                    obj = do_load(op, op["slot"])
                except Exception as e:
                    viol = V("load-raises", "step %d: loading an acknowledged save raised %s: %s" % (step, type(e).__name__, e))
                    break
                counts["load_checked"] += 1
                self.lenient_dtype = bool(st.get("over"))
                self.values_only = False
                e = compare(st["ack"], obj, "step %d (%s slot %s)" % (step, op["op"], k))
                if e:
                    viol = V("readback-differs", e)
                    break
                if op["op"] == "resave" and fam == "pars" and op.get("via_indexer"):
                    p2 = path(op["to"])
                    try:
                        with contextlib.redirect_stdout(io.StringIO()):
                            ix = M["indexing"].indexer()
                            ix.loadpars(path(op["slot"]))
                            retyped = {}
                            for k_, v_ in sorted(st["ack"]["pars"].items()):
                                # the user (or a GUI that hands back floats) sets an attribute to an equal value of another type /
                                # the other sign of zero: what is saved is what the indexer holds
                                if op["seed"] % 3 == 0 and isinstance(v_, int) and abs(v_) < 2 ** 52:
                                    setattr(ix, k_, float(v_))
                                    retyped[k_] = float(v_)
                                elif op["seed"] % 3 == 1 and isinstance(v_, float) and v_ == 0:
                                    setattr(ix, k_, -v_)
                                    retyped[k_] = -v_
                            ix.savepars(p2)
                            pr2 = M["parameters"].parameters()
                            pr2.loadparameters(p2)
                    except Exception as e2:
                        viol = V("resave-raises", "step %d: indexer.loadpars / savepars of a parameter file raised %s: %s" % (step, type(e2).__name__, e2))
                        break
                    counts["parameter_files_through_an_indexer"] += 1
                    e = self.cmp_pars(dict(st["ack"]["pars"], **retyped), {k_: v_ for k_, v_ in pr2.parameters.items() if k_ in st["ack"]["pars"]},
                                      "step %d: parameter file loaded into an indexer and saved from it" % step)
                    if e is None and set(st["ack"]["pars"]) - set(pr2.parameters):
                        e = "step %d: parameters %s lost on the way through an indexer" % (step, sorted(set(st["ack"]["pars"]) - set(pr2.parameters)))
                    if e:
                        viol = V("readback-differs", e)
                        break
                    model[(op["to"], "")] = {"ack": None, "dirty": True}
                elif op["op"] == "resave" and fam in ("cf_text", "pars", "grains_text"):
                    # second generation: save what was loaded into another slot, load it, must equal the first load exactly
                    to = op["to"]
                    p2 = path(to)
                    try:
                        with contextlib.redirect_stdout(io.StringIO()):
                            if fam == "cf_text":
                                obj.writefile(p2)
                                obj2 = M["columnfile"].columnfile(p2)
                                same = list(obj2.titles) == list(obj.titles) and all(
                                    np.array_equal(obj2.getcolumn(t), obj.getcolumn(t)) for t in obj.titles)
                            elif fam == "pars":
                                obj.saveparameters(p2)
                                obj2 = M["parameters"].parameters()
                                obj2.loadparameters(p2)
                                same = self.cmp_pars(obj.parameters, obj2.parameters, "second generation") is None
                            else:
                                M["grain"].write_grain_file(p2, obj)
                                obj2 = M["grain"].read_grain_file(p2)
                                same = len(obj2) == len(obj) and all(np.array_equal(a.ubi, b.ubi) for a, b in zip(obj, obj2))
                    except Exception as e2:
                        viol = V("resave-raises", "step %d: saving a loaded object raised %s: %s" % (step, type(e2).__name__, e2))
                        break
                    counts["second_generation_checked"] += 1
                    if not same:
                        viol = V("not-idempotent", "step %d: save(load(file)) does not read back equal to load(file)" % step)
                        break
                    # the target slot now holds something we did not model: mark unknown
                    model[(to, "")] = {"ack": None, "dirty": True}
        meas = dict(counts)
        meas["family"] = {fam: 1}
        meas["fault_history"] = 1 if desc["faults"] else 0
        dig = enginea.sha(fam, hist, sorted(counts.items()), viol["class"] if viol else None)
        return {"digest": dig, "sig": enginea.sha(fam, json.dumps(desc["ops"], sort_keys=True)),
                "nontrivial": counts["load_checked"] > 0, "viol": viol, "measures": meas}

    def minimise(self, desc, viol, ctx):
        cls = viol["class"]

        def test(ops):
            d = dict(desc)
            d["ops"] = ops
            r = self.execute(d, ctx)
            return r["viol"] is not None and r["viol"]["class"] == cls

        if not test(desc["ops"]):
            return desc
        d = dict(desc)
        d["ops"] = enginea.ddmin(desc["ops"], test, max_tests=200)
        return d


CHECK = C18()
if __name__ == "__main__":
    sys.exit(runner.main(CHECK))
