#!/venv/bin/python
"""
C19 - scanning geometry is self-consistent; reconstructions land where it predicts.

Engine B (pysched) for the threaded back-projection: iradon(..., workers=n) fans the projection angles out
over a ThreadPoolExecutor whose jobs close over shared arrays and whose results are summed by the caller.  One
run = one scanning geometry (ystep, y0 within +-10 steps, odd/even sinogram height, 0-180 or 0-360 scan) and a
point-like grain whose sinogram is built with the module's own functions, reconstructed with the module's own
shift and pad by the real run_iradon / iradon with the pool replaced by simulated worker threads under a
seeded interleaving (line-level pre-emption inside roi_iradon.py).
Oracle: (1) for fixed workers the result is independent of the schedule (1e-10 relative; bitwise equality is measured); (2) equal across worker counts
within summation-order tolerance; (3) the ROI-masked result equals the full one on the mask and is zero elsewhere;
(4) linear in the sinogram; (5) arg-max within 1.5 px of step_to_recon(sample_to_step(...)); (6) coordinate
conversions are mutual inverses and the lab y of the sample point at the returned dty is zero.
"""
from __future__ import print_function
import os, sys, random, io, contextlib
sys.path.insert(0, os.path.dirname(os.path.dirname(os.path.abspath(__file__))))
import numpy as np
from common import runner, enginea
from pysched import pysched


class RacyArray(np.ndarray):
    """numpy releases the GIL inside an in-place operation on a large array, so `a += b` on an array shared between
    pool threads is a non-atomic read-modify-write.  Arrays the module allocates (np.zeros/empty/...) are of this
    class during a simulated run: their in-place operators read a segment, offer a pre-emption point and write the
    segment back, so a lost update is a schedule the simulator can choose.  Private arrays behave as usual."""
    _sched = None
    _segments = 2

    def _inplace(self, ufunc, other):
        s = RacyArray._sched
        base = np.asarray(self)
        if s is None or base.ndim == 0 or base.shape[0] < 2:
            ufunc(base, other, out=base, casting="unsafe")
            return self
        n = base.shape[0]
        k = min(RacyArray._segments, n)
        o = np.asarray(other)
        bounds = [n * i // k for i in range(k + 1)]
        for a, b in zip(bounds[:-1], bounds[1:]):
            ob = o[a:b] if (o.ndim == base.ndim and o.shape[0] == n) else o
            tmp = ufunc(base[a:b], ob)
            RacyArray.n_points += 1
            s.point("inplace")
            base[a:b] = tmp
        return self
    n_points = 0

    def __iadd__(self, o): return self._inplace(np.add, o)
    def __isub__(self, o): return self._inplace(np.subtract, o)
    def __imul__(self, o): return self._inplace(np.multiply, o)
    def __itruediv__(self, o): return self._inplace(np.true_divide, o)


class NPRacy(object):
    """numpy as roi_iradon sees it during a simulated run: allocations return RacyArray views"""
    def __init__(self):
        for name in ("zeros", "empty", "ones", "full", "zeros_like", "empty_like", "ones_like"):
            setattr(self, name, self._wrap(getattr(np, name)))

    @staticmethod
    def _wrap(f):
        def g(*a, **k):
            return f(*a, **k).view(RacyArray)
        return g

    def __getattr__(self, name):
        return getattr(np, name)


class FuturesShim(object):
    def __init__(self, owner):
        self.ThreadPoolExecutor = lambda max_workers=None, **kw: owner.make_pool(max_workers)
        self.as_completed = pysched.sim_as_completed
        self.wait = pysched.sim_wait
        self.ALL_COMPLETED, self.FIRST_COMPLETED = "ALL_COMPLETED", "FIRST_COMPLETED"


class ConcurrentShim(object):
    def __init__(self, owner):
        self.futures = FuturesShim(owner)


class C19(object):
    id = "C19"
    engine = "pysched"
    time_keys = {"steps": "pre-emption points (bytecodes or source lines of the files under test)"}
    fault_keys = ["switches", "pool_threads_spawned"]
    tiers = {"quick": {"runs": 700, "budget_s": 60, "selftest_every": 30, "fresh_selftest": 6},
             "thorough": {"runs": 200000, "budget_s": 800, "selftest_every": 200, "fresh_selftest": 12}}
    rule = ("one run = (ystep, y0 within +-10 steps, sinogram height 15..64 odd/even, 0-180 or 0-360 scan with 20..90 "
            "angles, point grain inside the scanned disc, ROI mask, second sinogram and scalar for linearity, workers "
            "1..16 incl. more workers than angles, strategy, interleaving of the pool threads); distinct = distinct "
            "(geometry digest, workers, schedule signature); non-trivial = workers >= 2; also: numpy in-place operations on shared arrays split at pre-emption points, sinograms and ROI masks in other memory layouts, empty projections, cubic/nearest interpolation, GrainSinogram parameter histories and a second object, PBPRefine.setmask on a stand-in dataset, non-square shapes in the conversions, iradon with shifts that differ per projection, the angle array shifted in place between two in-beam queries, GrainSinogram.build_sinogram on a peak table with several peaks per sinogram cell")
    components = {"real": ["ImageD11.sinograms.roi_iradon.run_iradon / iradon / _get_fourier_filter (unchanged Python)",
                           "ImageD11.sinograms.geometry (all conversion functions, sino_shift_and_pad, dty_values_grain_in_beam, "
                           "dty_to_dtyi, step_grid_from_ybincens)", "ImageD11.sinograms.sinogram.GrainSinogram (update_recon_parameters, recon)",
                           "ImageD11.sinograms.point_by_point.PBPRefine (setmap, setmask)", "numpy, scipy.fft (its own worker threads are not controlled; each 1-D transform is "
                                          "computed by one thread and the digest self-test covers it)"],
                  "stub": ["concurrent.futures.ThreadPoolExecutor as seen by roi_iradon (simulated worker threads, results in "
                           "submission order)",
                           "numpy as seen by roi_iradon during a simulated run: arrays it allocates are RacyArray views whose in-place "
                           "operators are split at pre-emption points (numpy releases the GIL there)",
                           "the DataSet / PBPMap handed to PBPRefine and the grain / DataSet handed to GrainSinogram are minimal stand-ins"]}
    assumptions = ["the point grain's sinogram is a Gaussian profile (sigma 0.8 steps) centred on the continuous dty of the "
                   "grain; for 0-180 scans the grain lies inside the disc covered by every projection",
                   "the 1.5 px criterion is evaluated on the arg-max of the reconstruction, as the repository's own full-loop "
                   "test does",
                   "tolerances: 1e-10*max|recon| across worker counts, ROI and linearity"]

    def prepare(self, ctx):
        enginea.prepare_sim(ctx, import_imaged11=True)
        with contextlib.redirect_stdout(io.StringIO()):
            from ImageD11.sinograms import roi_iradon, geometry
        self.ri, self.geo = roi_iradon, geometry
        self.scratch = ctx.scratch
        # import (and compile the numba function used below) once in the parent: a scratch copy of the repository has no
        # numba cache, and every forked worker would otherwise spend most of the budget compiling
        with contextlib.redirect_stdout(io.StringIO()):
            from ImageD11.sinograms import point_by_point as pbp, sinogram, dataset  # noqa
            import ImageD11.grain  # noqa
        pbp.get_voxel_idx(0.0, 0.0, 0.0, np.zeros(2), np.ones(2), np.zeros(2), 1.0)
        self.file = roi_iradon.__file__

    def make_pool(self, max_workers):
        self.pool_calls.append(max_workers)
        return pysched.SimExecutor(self.sched, max_workers)

    def gen(self, rs, ctx):
        rnd = random.Random(rs)
        ystep = rnd.choice([1.0, 10.0, 0.5, 2.5])
        ny = rnd.randint(15, 64)
        full = rnd.random() < 0.5
        nang = rnd.randint(20, 90)
        off = rnd.uniform(-10, 10) if full else rnd.uniform(-3, 3)
        if rnd.random() < 0.25:
            off = rnd.uniform(-0.9, 0.9)
        workers = rnd.choice([1, 2, 2, 3, 4, 5, 7, 8, 11, 13, 16, nang + 3, None])  # None: "as many as the machine has"
        ncores = rnd.choice([1, 2, 3, 6, 16, 64])
        ymin = rnd.uniform(-5, 5) * ystep
        if rnd.random() < 0.3:
            # exactly representable geometry: the rotation axis can sit exactly on row ny/2 (shift == 0.0), on a row or
            # half-way between rows
            ymin = rnd.randint(-40, 10) * ystep
            off = rnd.choice([0.5, 0.5, -0.5, 0.0, 1.5, -2.0, 1.0]) if full else rnd.choice([0.5, 0.5, -0.5, 0.0, 1.0])
        gs_hist = None
        if rnd.random() < 0.35:
            # a GrainSinogram whose reconstruction parameters are updated as the estimate of y0 changes
            gs_hist = [{"off": rnd.choice([rnd.uniform(-6, 6), rnd.choice([0.5, -0.5, 0.0, 2.5, -3.0]), None]),
                        "how": rnd.choice(["update", "update", "update_partial", "attrs"]),
                        "workers": rnd.choice([1, 1, 2, 3])} for _ in range(rnd.randint(1, 3))]
        return {"entry": "run_iradon", "ncores": ncores, "ystep": ystep, "ny": ny, "full": full, "nang": nang, "ymin": ymin,
                "zero_cols": rnd.choice(["none", "none", "halves", "random", "random", "one", "cancel"]), "segments": rnd.choice([1, 2, 2, 3, 5]),
                "halfmask_story": rnd.random() < 0.15, "build_sino": (rnd.getrandbits(31) + 1) if rnd.random() < 0.25 else 0, "varshift": rnd.choice([None, None, None, "jitter", "drift"]), "h5_roundtrip": rnd.random() < 0.5,
                "pbp_setmask": rnd.random() < 0.2, "interp_kind": rnd.choice([None, None, None, "cubic", "nearest"]),
                "two_objects": rnd.random() < 0.5, "mask_layout": rnd.choice(["c", "c", "f", "t", "view"]),
                "nonsquare": [rnd.randint(0, 9), rnd.randint(0, 9)],
                "gs_hist": gs_hist, "sino_layout": rnd.choice(["c", "c", "f", "view", "list_angles"]),
                "y0_off_steps": off, "r_frac": rnd.uniform(0, 0.85), "phi": rnd.uniform(0, 2 * np.pi), "workers": workers,
                "workers2": rnd.choice([1, 2, 3, 6]), "filter": rnd.choice(["hamming", "hamming", "ramp", "shepp-logan"]),
                "lin_a": rnd.choice([2.0, -0.5, 3.25]), "mseed": rnd.getrandbits(32),
                "strategy": rnd.choice(["random", "random", "pct", "rr", "rtc"]), "p_inv": rnd.choice([1, 2, 4, 16]),
                "quantum": rnd.choice([1, 3, 10]), "pct_d": rnd.choice([1, 2, 3]), "sseed": rnd.getrandbits(48)}

    def describe(self, desc):
        return dict(desc)

    def recon(self, sino, omega, pad, shift, workers, mask, desc, simulate, strategy=None, call=None):
        """run_iradon; with simulate the pool threads are scheduled by pysched"""
        ri = self.ri
        # workers <= 0 lets the module ask the machine: the simulated machine has desc["ncores"] cores
        saved_cores = ri.cImageD11.cores_available
        ri.cImageD11.cores_available = lambda: desc.get("ncores", 4)
        try:
            return self._recon(sino, omega, pad, shift, workers, mask, desc, simulate, strategy, call)
        finally:
            ri.cImageD11.cores_available = saved_cores

    def _recon(self, sino, omega, pad, shift, workers, mask, desc, simulate, strategy=None, call=None):
        ri = self.ri
        if call is None:
            def call():
                return ri.run_iradon(sino, omega, pad=pad, shift=shift, workers=workers, mask=mask, filter_name=desc["filter"])
        if not simulate or workers == 1 or (workers is None and desc.get("ncores", 1) == 1):
            # no pool: the caller's thread does everything (the real pool, whose interleaving nobody decides, is never used)
            assert workers == 1 or (workers is None and desc.get("ncores", 1) == 1)
            with contextlib.redirect_stdout(io.StringIO()):
                return np.asarray(call()), None
        sched = pysched.Sched(desc["sseed"], strategy=strategy or desc["strategy"], p_inv=desc["p_inv"], quantum=desc["quantum"],
                              pct_d=desc["pct_d"], pct_est=20 * len(omega), step_cap=3000000, trace_files=[self.file],
                              replay=desc.get("replay"))
        self.sched = sched
        self.pool_calls = []
        saved, saved_np = ri.concurrent, ri.np
        out = {}
        try:
            ri.concurrent = ConcurrentShim(self)
            ri.np = NPRacy()
            RacyArray._sched, RacyArray._segments = sched, desc.get("segments", 2)

            def main():
                with contextlib.redirect_stdout(io.StringIO()):
                    out["r"] = call()
            sched.run(main)
        finally:
            ri.concurrent, ri.np = saved, saved_np
            RacyArray._sched = None
        return np.asarray(out["r"]), sched

    def pbp_setmask(self, desc, omega, ny, ymin, ystep, y0, sx, sy, meas, V):
        """PBPRefine.setmask: the sinogram of all peaks (here: of one point grain) is reconstructed on the refinement grid
        with the module's own shift; the reconstruction it makes (recorded at its run_iradon call) must put the grain
        where the geometry says"""
        from types import SimpleNamespace
        with contextlib.redirect_stdout(io.StringIO()):
            from ImageD11.sinograms import point_by_point as pbp
        geo = self.geo
        ybincens = ymin + ystep * np.arange(ny)
        ybinedges = np.concatenate([ybincens - ystep / 2, [ybincens[-1] + ystep / 2]])
        ostep = omega[1] - omega[0]
        obinedges = np.concatenate([omega - ostep / 2, [omega[-1] + ostep / 2]])
        dset = SimpleNamespace(ystep=ystep, ybincens=ybincens, ybinedges=ybinedges, obincens=omega, obinedges=obinedges,
                               refmapfile=None, refpeaksfile=None, refoutfile=None, refmanfile=None)
        rec = {}
        grid_fail = None
        real = pbp.run_iradon

        def recording(*a, **k):
            k["workers"] = 1
            rec["recon"] = real(*a, **k)
            return rec["recon"]
        try:
            pbp.run_iradon = recording
            with contextlib.redirect_stdout(io.StringIO()):
                ref = pbp.PBPRefine(dset, "phase", y0=y0)
                gstep = [1, 1, 2, 3][int(ny + len(omega)) % 4]      # maps indexed on a coarser grid are refined on the full one
                pts = geo.step_grid_from_ybincens(ybincens, ystep, gstep, y0)
                ref.setmap(SimpleNamespace(i=np.array([q[0] for q in pts]), j=np.array([q[1] for q in pts])))
                imin, imax = min(q[0] for q in pts), max(q[0] for q in pts)
                jmin, jmax = min(q[1] for q in pts), max(q[1] for q in pts)
                wx, wy = geo.step_to_sample(np.arange(imin, imax + 1), np.arange(jmin, jmax + 1), ystep)
                if ref.sx_grid.shape != (imax - imin + 1, jmax - jmin + 1) or not np.array_equal(ref.sx_grid[:, 0], wx) or \
                        not np.array_equal(ref.sy_grid[0, :], wy):
                    grid_fail = "grid %s for steps %d..%d x %d..%d (map indexed every %d steps)" % (ref.sx_grid.shape, imin, imax, jmin, jmax, gstep)
                dty = geo.dty_values_grain_in_beam(sx, sy, y0, omega)
                c = (dty - ymin) / ystep
                prof = np.rint(30 * np.exp(-0.5 * ((np.arange(ny)[:, None] - c[None, :]) / 0.8) ** 2)).astype(int)
                aa, bb = np.nonzero(prof)
                reps = prof[aa, bb]
                ref.icolf = SimpleNamespace(dty=np.repeat(ybincens[aa], reps), omega=np.repeat(omega[bb], reps))
                ref.setmask()
        except Exception as e:
            if runner.is_harness_exception(e):
                raise
            return V("raises", "PBPRefine.setmask raised %s: %s" % (type(e).__name__, e))
        finally:
            pbp.run_iradon = real
        rc = rec.get("recon")
        meas["pbp_setmask_runs"] = 1
        if grid_fail:
            return V("conversion-not-inverse", "PBPRefine.setmap: the refinement grids do not cover every step of the map's range: " + grid_fail)
        if rc is None:
            return V("raises", "PBPRefine.setmask did not reconstruct anything")
        if rc.shape != ref.sx_grid.shape or np.asarray(ref.mask).shape != rc.shape:
            return V("grain-misplaced", "PBPRefine.setmask: reconstruction %s / mask %s do not have the shape of the refinement grid %s" %
                     (rc.shape, np.asarray(ref.mask).shape, ref.sx_grid.shape))
        ri, rj = geo.step_to_recon(*geo.sample_to_step(sx, sy, ystep), recon_shape=rc.shape)
        mi, mj = np.unravel_index(np.argmax(rc), rc.shape)
        dist = float(np.hypot(mi - ri, mj - rj))
        if dist > 1.5:
            return V("grain-misplaced", "PBPRefine.setmask: the grain at sample (%.3f, %.3f) is reconstructed at (%d, %d), the geometry "
                                        "predicts (%.2f, %.2f): %.2f px (ny %d, y0 %.2f steps from the first row)" %
                     (sx, sy, mi, mj, ri, rj, dist, ny, (y0 - ymin) / ystep))
        return None

    def build_sino_story(self, desc, ny, ymin, ystep, y0, sx, sy, meas, V):
        """GrainSinogram.build_sinogram on a peak table of one point grain: several reflections (hkl, sign of eta), each seen at
        several angles, some of them on consecutive frames at the same dty step (several peaks in one sinogram cell).  Every
        projection must hold the summed intensity per dty step (normalised to its maximum) and the intensity-weighted mean angle."""
        import types
        import ImageD11.grain
        from ImageD11.sinograms import sinogram, dataset
        from ImageD11 import columnfile
        geo = self.geo
        g = np.random.default_rng(desc["build_sino"])
        a0 = 4.0
        nref = int(g.integers(2, 9))
        hkls = set()
        while len(hkls) < nref:
            h_ = tuple(int(x) for x in g.integers(-3, 4, 3))
            if h_ != (0, 0, 0):
                hkls.add(h_)
        rows = []
        for h_ in sorted(hkls):
            for sgn in ([1.0, -1.0] if g.random() < 0.5 else [float(g.choice([1.0, -1.0]))]):
                for _ in range(int(g.integers(1, 5))):
                    om_ = float(np.round(g.uniform(-180, 180), 2))
                    dt_ = float(geo.dty_values_grain_in_beam(sx, sy, y0, np.array([om_]))[0])
                    k_ = int(np.clip(np.round((dt_ - ymin) / ystep), 0, ny - 1))
                    reps = 1 + int(g.random() < 0.4) + int(g.random() < 0.15)     # the same reflection on consecutive frames
                    for q in range(reps):
                        rows.append((h_, sgn, om_ + 0.05 * q, ymin + k_ * ystep, float(np.round(g.uniform(1, 1000), 1))))
        H = np.array([r[0] for r in rows], float)
        cols = {"gx": H[:, 0] / a0, "gy": H[:, 1] / a0, "gz": H[:, 2] / a0,
                "eta": np.array([r[1] * g.uniform(10, 170) for r in rows]), "omega": np.array([r[2] for r in rows]),
                "dty": np.array([r[3] for r in rows]), "sum_intensity": np.array([r[4] for r in rows])}
        try:
            with contextlib.redirect_stdout(io.StringIO()):
                gs = sinogram.GrainSinogram(ImageD11.grain.grain(np.eye(3) * a0), dataset.DataSet())
                gs.ds = types.SimpleNamespace(ybincens=ymin + np.arange(ny) * ystep, ystep=ystep)
                gs.cf_for_sino = columnfile.colfile_from_dict(cols)
                gs.build_sinogram()
        except Exception as e:
            if runner.is_harness_exception(e):
                raise
            return V("raises", "GrainSinogram.build_sinogram raised %s: %s" % (type(e).__name__, e))
        meas["build_sinogram_runs"] = 1
        want = {}
        for (h_, sgn, om_, dt_, I_) in rows:
            key = (h_[0], h_[1], h_[2], int((int(sgn) + 1) // 2))
            k_ = int(np.round((dt_ - ymin) / ystep))
            w = want.setdefault(key, [np.zeros(ny), 0.0, 0.0])
            w[0][k_] += I_
            w[1] += om_ * I_
            w[2] += I_
        hk = np.asarray(gs.hkle)
        ss = np.asarray(gs.ssino, float)
        if hk.shape[1] != len(want) or ss.shape != (ny, len(want)):
            return V("sinogram-differs", "build_sinogram: %d projections of %s dty steps for %d reflections seen over %d steps" %
                     (hk.shape[1], ss.shape[0], len(want), ny))
        meas["sinogram_cells_with_several_peaks"] = int(sum(1 for v in want.values() for x in v[0] if x > 0) < len(rows))
        for r in range(hk.shape[1]):
            key = tuple(int(x) for x in hk[:, r])
            if key not in want:
                return V("sinogram-differs", "build_sinogram: projection %d is labelled %s, no such reflection in the table" % (r, key))
            row, so, si = want[key]
            got_row = ss[:, r] * float(gs.proj_scale[r])
            if not np.allclose(got_row, row, rtol=1e-4, atol=1e-3) or abs(float(gs.sinoangles[r]) - so / si) > 0.02:
                return V("sinogram-differs", "build_sinogram, reflection %s: angle %.3f (intensity-weighted mean of its peaks %.3f), "
                                            "intensities per step differ by up to %.3g" %
                         (key, float(gs.sinoangles[r]), so / si, float(np.abs(got_row - row).max())))
        return None

    def grainsino_history(self, desc, sino, omega, ny, ymin, ystep, y0, sx, sy, R, meas, V):
        """one GrainSinogram object reconstructed several times while the estimate of y0 (hence shift and pad) is
        revised; the last estimate is the true y0.  After each update the object holds the parameters it was given and
        its reconstruction is the one run_iradon gives for those parameters (no state carried over from earlier
        estimates); the last one puts the grain where the geometry says."""
        import ImageD11.grain
        from ImageD11.sinograms import sinogram, dataset
        geo = self.geo
        with contextlib.redirect_stdout(io.StringIO()):
            gs = sinogram.GrainSinogram(ImageD11.grain.grain(np.eye(3)), dataset.DataSet())
        gs.ssino, gs.sinoangles, gs.sino = sino, omega, sino
        steps = list(desc["gs_hist"]) + [{"off": None, "how": "update", "workers": desc["gs_hist"][-1]["workers"]}]
        mid = ymin + (ny - 1) / 2.0 * ystep
        meas["gs_steps"] = len(steps)
        for k, st in enumerate(steps):
            y0k = y0 if st["off"] is None else mid + st["off"] * ystep
            shift, pad = geo.sino_shift_and_pad(y0k, ny, ymin, ystep)
            if shift == 0:
                meas["gs_shift_exactly_zero"] = meas.get("gs_shift_exactly_zero", 0) + 1
            if y0k == 0:
                meas["gs_y0_exactly_zero"] = meas.get("gs_y0_exactly_zero", 0) + 1
            if st["how"] == "update":
                gs.update_recon_parameters(pad=pad, shift=shift, y0=y0k)
            elif st["how"] == "update_partial":
                gs.update_recon_parameters(pad=pad)
                gs.update_recon_parameters(y0=y0k, shift=shift)
            else:
                gs.recon_pad, gs.recon_shift, gs.recon_y0 = pad, shift, y0k
            held = (gs.recon_pad, gs.recon_shift, gs.recon_y0)
            if not (held[0] == pad and held[1] == shift and held[2] == y0k):
                return V("stale-recon-parameters", "step %d of %d on one GrainSinogram: given pad %s shift %r y0 %r, the object holds "
                                                   "pad %s shift %r y0 %r" % (k, len(steps), pad, shift, y0k, held[0], held[1], held[2]))
            w = st["workers"]
            want, _ = self.recon(sino, omega, int(pad), shift, 1, None, desc, simulate=False)
            got, _ = self.recon(sino, omega, pad, shift, w, None, desc, simulate=(w != 1), strategy="rr",
                                call=lambda: gs.recon(method="iradon", workers=w, filter_name=desc["filter"]))
            mx = float(np.abs(want).max())
            d = float(np.abs(got - want).max()) if got.shape == want.shape else float("inf")
            if not d <= 1e-10 * mx:
                return V("history-dependent", "step %d of %d on one GrainSinogram (pad %s shift %r): its reconstruction differs from "
                                              "run_iradon with these parameters by %.3g (max %.3g)" % (k, len(steps), pad, shift, d, mx))
            if gs.recons.get("iradon") is not got and not np.array_equal(np.asarray(gs.recons.get("iradon")), got):
                return V("history-dependent", "GrainSinogram.recons['iradon'] is not the reconstruction just returned")
        if desc.get("h5_roundtrip"):
            # the object is saved with a region-of-interest mask and read back (the module's own to_h5py_group /
            # from_h5py_group): the reloaded object reconstructs as the one that was saved
            import h5py
            with contextlib.redirect_stdout(io.StringIO()):
                gm = np.random.default_rng(ny * 1000 + len(omega))
                m_ = gm.random(np.asarray(got).shape) < 0.3
                gs.update_recon_parameters(mask=m_)
                r_mask = np.asarray(gs.recon(method="iradon", workers=1, filter_name=desc["filter"])).copy()
                ph = os.path.join(self.scratch, "c19_gs_%d.h5" % os.getpid())
                if os.path.exists(ph):
                    os.remove(ph)
                with h5py.File(ph, "w") as h:
                    gs.to_h5py_group(h, "g0")
                with h5py.File(ph, "r") as h:
                    gs_r = sinogram.GrainSinogram.from_h5py_group(h["g0"], gs.ds, gs.grain)
                r_back = np.asarray(gs_r.recon(method="iradon", workers=1, filter_name=desc["filter"]))
                gs.recon_mask = None
                gs.recons["iradon"] = got
            meas["h5_roundtrips"] = 1
            if r_back.shape != r_mask.shape or not np.array_equal(r_back, r_mask):
                return V("history-dependent", "a GrainSinogram saved with its ROI mask and read back reconstructs differently from the "
                                              "object that was saved (mask read back as %s)" % np.asarray(gs_r.recon_mask).dtype)
        if desc.get("two_objects"):
            # another grain's GrainSinogram is reconstructed in between: what this one stores must stay its own
            with contextlib.redirect_stdout(io.StringIO()):
                gs2 = sinogram.GrainSinogram(ImageD11.grain.grain(np.eye(3)), dataset.DataSet())
                gs2.ssino, gs2.sinoangles, gs2.sino = sino[::-1].copy(), omega, sino[::-1].copy()
                gs2.update_recon_parameters(pad=pad, shift=shift, y0=y0)
                other = np.asarray(gs2.recon(method="iradon", workers=1, filter_name=desc["filter"]))
            meas["second_GrainSinogram"] = 1
            mine = np.asarray(gs.recons.get("iradon"))
            if mine.shape != np.asarray(got).shape or not np.array_equal(mine, np.asarray(got)):
                return V("history-dependent", "after another GrainSinogram object was reconstructed, recons['iradon'] of the first one is "
                                              "no longer its own reconstruction")
        rs_i, rs_j = geo.step_to_recon(*geo.sample_to_step(sx, sy, ystep), recon_shape=got.shape)
        mi, mj = np.unravel_index(np.argmax(got), got.shape)
        dist = float(np.hypot(mi - rs_i, mj - rs_j))
        if R >= 3 and dist > 1.5:
            return V("grain-misplaced", "GrainSinogram after %d parameter updates: grain at (%d, %d), predicted (%.2f, %.2f): %.2f px" %
                     (len(steps), mi, mj, rs_i, rs_j, dist))
        return None

    def execute(self, desc, ctx):
        geo = self.geo
        ystep, ny, ymin = desc["ystep"], desc["ny"], desc["ymin"]
        omega = np.linspace(0, 360 if desc["full"] else 180, desc["nang"], endpoint=False)
        y0 = ymin + (ny - 1) / 2.0 * ystep + desc["y0_off_steps"] * ystep
        y0_px = (y0 - ymin) / ystep
        R = min(y0_px, ny - 1 - y0_px)
        viol = None

        def V(cls, detail):
            return {"class": cls, "key": "scanning:" + cls, "detail": detail}

        r = max(0.0, desc["r_frac"] * max(R, 0.0)) * ystep
        sx, sy = r * np.cos(desc["phi"]), r * np.sin(desc["phi"])
        # ---- (6) geometry invariants
        g = np.random.default_rng(desc["mseed"])
        om_t, dty_t = g.uniform(-360, 360, 5), g.uniform(-50, 50, 5) * ystep
        lx, ly = geo.sample_to_lab(sx, sy, y0, dty_t, om_t)
        bx, by = geo.lab_to_sample(lx, ly, y0, dty_t, om_t)
        si, sj = geo.sample_to_step(sx, sy, ystep)
        shape = (ny + 7 + desc.get("nonsquare", [0, 0])[0], ny + 7 + desc.get("nonsquare", [0, 0])[1])
        rci, rcj = geo.step_to_recon(si, sj, shape)
        inv = [np.abs(bx - sx).max(), np.abs(by - sy).max(),
               abs(geo.step_to_sample(si, sj, ystep)[0] - sx), abs(geo.step_to_sample(si, sj, ystep)[1] - sy),
               abs(geo.recon_to_step(rci, rcj, shape)[0] - si), abs(geo.recon_to_step(rci, rcj, shape)[1] - sj),
               abs(geo.recon_to_sample(*geo.sample_to_recon(sx, sy, shape, ystep), recon_shape=shape, ystep=ystep)[0] - sx),
               np.abs(np.array(geo.recon_to_lab(*geo.lab_to_recon(lx, ly, y0, dty_t, om_t, shape, ystep), y0, dty_t, om_t, shape, ystep)) - np.array([lx, ly])).max()]
        scale = max(1.0, abs(sx), abs(sy), np.abs(dty_t).max())
        if max(inv) > 1e-9 * scale:
            viol = V("conversion-not-inverse", "coordinate conversions are not mutual inverses: residuals %s" % np.round(inv, 12).tolist())
        dty = geo.dty_values_grain_in_beam(sx, sy, y0, omega)
        lyb = geo.sample_to_lab(sx, sy, y0, dty, omega)[1]
        if viol is None and np.abs(lyb).max() > 1e-9 * scale:
            viol = V("in-beam-dty-wrong", "lab y of the sample point at the dty said to bring it into the beam is %g" % np.abs(lyb).max())
        if viol is None:
            # the interlaced pass: the caller's angle array is shifted in place and the in-beam positions are asked for again
            om_ip = np.array(omega, float)
            geo.dty_values_grain_in_beam(sx, sy, y0, om_ip)
            om_ip += 0.25
            d_ip = geo.dty_values_grain_in_beam(sx, sy, y0, om_ip)
            ly_ip = geo.sample_to_lab(sx, sy, y0, d_ip, om_ip)[1]
            if np.abs(ly_ip).max() > 1e-9 * scale:
                viol = V("in-beam-dty-wrong", "after the caller shifted its angle array in place (+0.25 degrees), the dty said to bring the point "
                                              "into the beam leaves it %g from the beam" % float(np.abs(ly_ip).max()))
        dtyi = geo.dty_to_dtyi(dty, ystep, ymin)
        if viol is None and np.abs(geo.dtyi_to_dty(dtyi, ystep, ymin) - dty).max() > 0.5 * ystep * (1 + 1e-9):
            viol = V("dtyi-rounding", "dty_to_dtyi is not the nearest step")
        # ... also for positions outside the scanned range (rows below the first one have negative indices)
        dty_any = ymin + g.uniform(-40, 80, 12) * ystep
        dtyi_any = geo.dty_to_dtyi(dty_any, ystep, ymin)
        if viol is None and np.abs(geo.dtyi_to_dty(dtyi_any, ystep, ymin) - dty_any).max() > 0.5 * ystep * (1 + 1e-9):
            kq = int(np.argmax(np.abs(geo.dtyi_to_dty(dtyi_any, ystep, ymin) - dty_any)))
            viol = V("dtyi-rounding", "dty_to_dtyi(%.4f) = %d with ystep %g, ymin %.4f: not the nearest step (%.3f steps from the first row)" %
                     (dty_any[kq], int(dtyi_any[kq]), ystep, ymin, (dty_any[kq] - ymin) / ystep))
        if viol is None:
            # the point-by-point copy of the in-beam relation: at the dty that brings the point into the beam the distance is zero
            with contextlib.redirect_stdout(io.StringIO()):
                from ImageD11.sinograms import point_by_point as pbp
            so, co = np.sin(np.radians(omega)), np.cos(np.radians(omega))
            idx, ydist = pbp.get_voxel_idx(float(y0), float(sx), float(sy), so, co, np.asarray(dty, float), float(ystep))
            if np.abs(ydist).max() > 1e-9 * scale or len(idx) != len(omega):
                viol = V("in-beam-dty-wrong", "point_by_point.get_voxel_idx: at the in-beam dty values the distance from the beam is up to "
                                              "%g (y0 %.3f); %d of %d projections selected" % (float(np.abs(ydist).max()), y0, len(idx), len(omega)))
        # ---- sinogram of the point grain
        c = (dty - ymin) / ystep
        ii = np.arange(ny)[:, None]
        sino = np.exp(-0.5 * ((ii - c[None, :]) / 0.8) ** 2)
        shift, pad = geo.sino_shift_and_pad(y0, ny, ymin, ystep)
        pad = int(pad)
        workers = desc["workers"]
        meas = {"workers": {str(workers): 1}, "strategy": {desc["strategy"]: 1}, "scan": {"0-360" if desc["full"] else "0-180": 1},
                "abs_shift_ge_1": 1 if abs(shift) >= 1 else 0}
        sched = None
        dig = []
        nontrivial = False
        mt = workers != 1 and not (workers is None and desc.get("ncores", 1) == 1)
        if viol is None:
            try:
                ref, _ = self.recon(sino, omega, pad, shift, 1, None, desc, simulate=False)             # one thread, no pool
                # the same sinogram in another memory layout (Fortran order, strided view) / the angles as a list
                L = desc.get("sino_layout", "c")
                sino_l, omega_l = sino, omega
                if L == "f":
                    sino_l = np.asfortranarray(sino)
                elif L == "view":
                    big = np.full((sino.shape[0], 2 * sino.shape[1]), 7.0)
                    big[:, ::2] = sino
                    sino_l = big[:, ::2]
                elif L == "list_angles":
                    omega_l = [float(x) for x in omega]
                meas["sinogram_layout"] = {L: 1}
                if mt:
                    sim0, _ = self.recon(sino, omega, pad, shift, workers, None, desc, simulate=True, strategy="rtc")
                    sim, sched = self.recon(sino_l, omega_l, pad, shift, workers, None, desc, simulate=True)
                elif L != "c":
                    sim0 = ref
                    sim, _ = self.recon(sino_l, omega_l, pad, shift, 1, None, desc, simulate=False)
                else:
                    sim0 = sim = ref
            except pysched.Deadlock as e:
                viol = V("deadlock", str(e))
            except pysched.StepCap as e:
                viol = V("no-progress", str(e))
            except Exception as e:
                if runner.is_harness_exception(e):
                    raise
                viol = V("raises", "run_iradon raised %s: %s (shift %.2f pad %d)" % (type(e).__name__, e, shift, pad))
        mx = float(np.abs(ref).max()) if viol is None else 1.0
        if viol is None:
            nontrivial = (workers or desc.get("ncores", 1)) >= 2
            dig.append(enginea.sha(sim))
            if sched is not None:
                meas["steps"], meas["switches"] = sched.steps, sched.switches
                meas["pool_threads_spawned"] = len(sched.threads) - 1
                meas["inplace_points"] = RacyArray.n_points
            # the statement asks for independence of the schedule to floating point accuracy (summing the partial
            # results in completion order would be legitimate); on the current code the results are even bitwise equal
            meas["bitwise_equal_across_schedules"] = 1 if sim.tobytes() == sim0.tobytes() else 0
            dmax = float(np.abs(sim - sim0).max())
            if not dmax <= 1e-10 * mx:
                viol = V("schedule-dependent", "workers=%s: the reconstruction under the seeded schedule (%s) differs "
                                               "from the one where each pool thread runs to completion by %.3g (max |recon| %.3g)" %
                         (workers, desc["strategy"], dmax, mx))
        if viol is None:
            # (2) worker counts
            d = float(np.abs(sim - ref).max())
            if not d <= 1e-10 * mx:
                viol = V("worker-count-dependent", "workers=%s and workers=1 differ by %.3g (max |recon| %.3g)" % (workers, d, mx))
        if viol is None and desc["workers2"] != 1:
            other, _ = self.recon(sino, omega, pad, shift, desc["workers2"], None, desc, simulate=True, strategy="rr")
            d = float(np.abs(other - ref).max())
            if not d <= 1e-10 * mx:
                viol = V("worker-count-dependent", "workers=%s and workers=1 differ by %.3g (max |recon| %.3g)" %
                         (desc["workers2"], d, mx))
        if viol is None:
            # (5) where the grain lands
            rs_i, rs_j = geo.step_to_recon(*geo.sample_to_step(sx, sy, ystep), recon_shape=ref.shape)
            mi, mj = np.unravel_index(np.argmax(ref), ref.shape)
            dist = float(np.hypot(mi - rs_i, mj - rs_j))
            meas["argmax_distance_px_x100"] = {str(int(dist * 100) // 25 * 25): 1}
            if R >= 3 and dist > 1.5:
                viol = V("grain-misplaced", "point grain at sample (%.3f, %.3f) reconstructs at (%d, %d), the geometry predicts "
                                            "(%.2f, %.2f): %.2f px (ny %d, y0 %.2f steps from the first row, shift %.2f, pad %d, %s)" %
                         (sx, sy, mi, mj, rs_i, rs_j, dist, ny, y0_px, shift, pad, "0-360" if desc["full"] else "0-180"))
        if viol is None:
            # (3) ROI
            mask = g.random(ref.shape) < 0.15
            mask[max(0, int(rs_i) - 3):int(rs_i) + 4, max(0, int(rs_j) - 3):int(rs_j) + 4] = True
            ML = desc.get("mask_layout", "c")
            mask_l = mask
            if ML == "f":
                mask_l = np.asfortranarray(mask)
            elif ML == "t":
                mask_l = np.ascontiguousarray(mask.T).T          # a transposed view
            elif ML == "view":
                bigm = np.zeros((mask.shape[0], 2 * mask.shape[1]), bool)
                bigm[:, ::2] = mask
                mask_l = bigm[:, ::2]
            meas["roi_mask_layout"] = {ML: 1}
            roi, sch2 = self.recon(sino, omega, pad, shift, workers, mask_l, desc, simulate=mt)
            d = np.abs(roi[mask] - ref[mask]).max()
            if not d <= 1e-10 * mx:
                viol = V("roi-dependent", "restricting the reconstruction to a region-of-interest mask changes the values on the mask "
                                          "by %.3g (max |recon| %.3g; shift %.2f px, pad %d, workers %s)" % (d, mx, shift, pad, workers))
            elif np.abs(roi[~mask]).max() != 0:
                viol = V("roi-dependent", "pixels outside the mask are not zero")
            dig.append(enginea.sha(roi))
            if viol is None:
                # a compact ROI near the rotation axis while the sinogram has intensity in rows further out than the ROI reaches
                # (other grains, the whole sample): the values on the ROI are those of the full reconstruction
                s_wide = sino + g.random(sino.shape)
                yy_, xx_ = np.mgrid[:ref.shape[0], :ref.shape[1]]
                rad_ = g.uniform(1.5, max(2.0, 0.25 * ref.shape[0]))
                cmask = np.hypot(yy_ - ref.shape[0] // 2 - g.uniform(-2, 2), xx_ - ref.shape[1] // 2 - g.uniform(-2, 2)) <= rad_
                if cmask.any():
                    full_w, _ = self.recon(s_wide, omega, pad, shift, 1, None, desc, simulate=False)
                    roi_w, _ = self.recon(s_wide, omega, pad, shift, 1, cmask, desc, simulate=False)
                    dw = float(np.abs(roi_w[cmask] - full_w[cmask]).max())
                    if not dw <= 1e-10 * float(np.abs(full_w).max()):
                        viol = V("roi-dependent", "a compact ROI (radius %.1f px) changes the values on the ROI by %.3g (max |recon| %.3g) "
                                                  "for a sinogram with intensity in rows beyond the ROI" % (rad_, dw, float(np.abs(full_w).max())))
        if viol is None:
            # (4) linearity, also for sinograms in which some projections are empty (a grain that leaves the scanned range,
            # half of a scan, a masked sub-range): f(a*s1 + s2) = a*f(s1) + f(s2)
            s1, s2 = sino.copy(), g.random(sino.shape)
            zc = desc.get("zero_cols", "none")
            if zc == "halves":
                h = sino.shape[1] // 2
                s1[:, h:] = 0
                s2[:, :h] = 0
            elif zc == "random":
                s1[:, g.random(sino.shape[1]) < 0.3] = 0
                s2[:, g.random(sino.shape[1]) < 0.3] = 0
            elif zc == "one":
                s2[:, int(g.integers(sino.shape[1]))] = 0
            elif zc == "cancel":
                # signed sinograms (a difference of two grains): every column of a*s1 + s2 sums to exactly zero without
                # being empty
                s1 = np.zeros_like(sino)
                s2 = np.zeros_like(sino)
                rows1 = g.integers(0, sino.shape[0], sino.shape[1])
                rows2 = (rows1 + 1 + g.integers(0, sino.shape[0] - 1, sino.shape[1])) % sino.shape[0]
                s1[rows1, np.arange(sino.shape[1])] = 1.0
                s2[rows2, np.arange(sino.shape[1])] = -desc["lin_a"]
            meas["zero_cols"] = {zc: 1}
            a = desc["lin_a"]
            r1, _ = self.recon(s1, omega, pad, shift, 1, None, desc, simulate=False)
            r2, _ = self.recon(s2, omega, pad, shift, 1, None, desc, simulate=False)
            r12, _ = self.recon(a * s1 + s2, omega, pad, shift, 1, None, desc, simulate=False)
            d = np.abs(r12 - (a * r1 + r2)).max()
            lim = 1e-10 * max(float(np.abs(r1).max()) * abs(a), float(np.abs(r2).max()), 1.0)
            if not d <= lim:
                viol = V("not-linear", "iradon(a*s1+s2) differs from a*iradon(s1)+iradon(s2) by %.3g (limit %.3g; empty "
                                       "projections: %s)" % (d, lim, zc))
        if viol is None and desc.get("varshift") and mt:
            # iradon called directly with shifts that differ from projection to projection (what a per-projection
            # alignment delivers): the pool's result against the caller's own thread
            gsh = np.random.default_rng(desc["mseed"] ^ 0x5517)
            per = shift + gsh.uniform(-2, 2, sino.shape[1]) * (desc["varshift"] == "jitter") + \
                np.linspace(-1.5, 1.5, sino.shape[1]) * (desc["varshift"] == "drift")
            ps = np.repeat(per[None, :], sino.shape[0], axis=0)
            ri = self.ri

            def call_v(w):
                return lambda: ri.iradon(sino, theta=omega, output_size=sino.shape[0] + pad, projection_shifts=ps,
                                         filter_name=desc["filter"], interpolation="linear", workers=w)
            try:
                rv1, _ = self.recon(sino, omega, pad, shift, 1, None, desc, simulate=False, call=call_v(1))
                rvw, _ = self.recon(sino, omega, pad, shift, workers, None, desc, simulate=True, call=call_v(workers))
                meas["varying_shift_calls"] = 1
                dv = float(np.abs(rvw - rv1).max())
                if rvw.shape != rv1.shape or not dv <= 1e-9 * max(1.0, float(np.abs(rv1).max())):
                    viol = V("worker-count-dependent", "iradon with per-projection shifts (%s), workers=%s: differs from workers=1 "
                                                           "by %.3g (largest value %.3g)" % (desc["varshift"], workers, dv, float(np.abs(rv1).max())))
            except pysched.Deadlock as e:
                viol = V("deadlock", str(e))
            except pysched.StepCap as e:
                viol = V("no-progress", str(e))
            except Exception as e:
                if runner.is_harness_exception(e):
                    raise
                viol = V("raises", "iradon(projection_shifts=per projection) raised %s: %s" % (type(e).__name__, e))
        if viol is None and desc.get("halfmask_story"):
            # the same sinogram array is reconstructed, then once with the rarely used half-mask option, then again: the
            # back-projection is a function of the sinogram, which the calls must leave alone
            s_keep = np.ascontiguousarray(sino).copy()
            s_work = s_keep.copy()
            try:
                with contextlib.redirect_stdout(io.StringIO()):
                    ra_ = np.asarray(self.ri.run_iradon(s_work, omega, pad=pad, shift=shift, workers=1, filter_name=desc["filter"]))
                    self.ri.run_iradon(s_work, omega, pad=pad, shift=shift, workers=1, filter_name=desc["filter"], apply_halfmask=True)
                    rb_ = np.asarray(self.ri.run_iradon(s_work, omega, pad=pad, shift=shift, workers=1, filter_name=desc["filter"]))
                meas["halfmask_stories"] = 1
                if not np.array_equal(s_work, s_keep) or not np.array_equal(ra_, rb_):
                    viol = V("history-dependent", "a reconstruction with apply_halfmask=True changed the caller's sinogram: the same "
                                                  "array reconstructs differently afterwards (largest difference %.3g)" %
                             float(np.abs(ra_ - rb_).max()))
            except Exception as e:
                if runner.is_harness_exception(e):
                    raise
                viol = V("raises", "run_iradon(apply_halfmask=True) raised %s: %s" % (type(e).__name__, e))
        if viol is None and desc.get("interp_kind") and R >= 3:
            # iradon with the other interpolation kinds it offers (same shifts, same output size as run_iradon uses)
            kind = desc["interp_kind"]
            try:
                with contextlib.redirect_stdout(io.StringIO()):
                    rk = np.asarray(self.ri.iradon(sino, theta=omega, output_size=sino.shape[0] + pad,
                                                   projection_shifts=np.full(sino.shape, shift), filter_name=desc["filter"],
                                                   interpolation=kind, workers=1))
            except Exception as e:
                if runner.is_harness_exception(e):
                    raise
                rk = None
                viol = V("raises", "iradon(interpolation=%r) raised %s: %s" % (kind, type(e).__name__, e))
            if rk is not None:
                ki, kj = geo.step_to_recon(*geo.sample_to_step(sx, sy, ystep), recon_shape=rk.shape)
                mi, mj = np.unravel_index(np.argmax(rk), rk.shape)
                dk = float(np.hypot(mi - ki, mj - kj))
                meas["interpolation_kind"] = {kind: 1}
                if dk > (1.5 if kind == "cubic" else 2.0):
                    viol = V("grain-misplaced", "iradon(interpolation=%r): grain at (%d, %d), the geometry predicts (%.2f, %.2f): %.2f px "
                                                "(shift %.2f, pad %d)" % (kind, mi, mj, ki, kj, dk, shift, pad))
        if viol is None and desc.get("pbp_setmask") and R >= 3:
            viol = self.pbp_setmask(desc, omega, ny, ymin, ystep, y0, sx, sy, meas, V)
        if viol is None and desc.get("build_sino"):
            viol = self.build_sino_story(desc, ny, ymin, ystep, y0, sx, sy, meas, V)
        if viol is None and desc.get("gs_hist"):
            viol = self.grainsino_history(desc, sino, omega, ny, ymin, ystep, y0, sx, sy, R, meas, V)
        sig = "%s/%s/%s" % (enginea.sha(ystep, ny, desc["full"], desc["nang"], desc["y0_off_steps"], desc["r_frac"], desc["phi"]),
                            workers, sched.sched_sig() if sched is not None else "-")
        return {"digest": enginea.sha(dig, sched.digest() if sched is not None else None), "sig": sig,
                "nontrivial": nontrivial, "viol": viol, "measures": meas}


CHECK = C19()
if __name__ == "__main__":
    sys.exit(runner.main(CHECK))
