#!/venv/bin/python
"""
C20 - compiled kernels never touch memory outside their arguments.

Engine A, strict mode: every function exported through _cImageD11.pyf is called on simulator-owned stacks
with exactly sized, guard-separated argument buffers whose address ranges (and read/write permission) are
registered with the runtime; every instrumented access is checked BEFORE it happens.  Each run is executed
twice with complementary garbage in every output/work buffer, on the stacks and in the simulated heap: the
promised outputs and the return value must be bitwise identical (= every promised byte was written, and no
result depends on memory the kernel did not write itself).
"""
from __future__ import print_function
import os, sys, random, math, io, contextlib
sys.path.insert(0, os.path.dirname(os.path.dirname(os.path.abspath(__file__))))
import numpy as np
from common import runner, enginea, kernels
from common.enginea import simlib
from common.kernels import K, DT

NPROPERTY = 36   # checked against the module at prepare()
NPROPERTY2D = 11


# ---------------------------------------------------------------------- helpers
def L(a):
    return np.asarray(a).tolist()


def img_f32(g, ns, nf, kind=0):
    if kind == 0:
        return (g.random((ns, nf)) * 100).astype(np.float32)
    if kind == 1:
        return g.integers(0, 4, (ns, nf)).astype(np.float32)
    return ((np.indices((ns, nf)).sum(0) % 2) * 10.0 + g.random((ns, nf))).astype(np.float32)


def shape2(rnd, lo=2, big=False):
    small = [lo, lo, lo + 1, 3, 4, 5, 7, 8, 11, 16]
    ns, nf = rnd.choice(small), rnd.choice(small)
    if big:
        ns, nf = rnd.choice([2, 3, 40, 64, 130]), rnd.choice([2, 3, 33, 64, 129])
    return max(ns, lo), max(nf, lo)


def sparse_pattern(rnd, g, allow_offset=True, maxdim=12):
    """sorted (row, col) with boundary emphasis: corners, empty rows, single pixel, full"""
    ns, nf = rnd.randint(1, maxdim), rnd.randint(1, maxdim)
    mode = rnd.choice(["rand", "rand", "full", "single", "corners", "emptyrows", "checker"])
    if mode == "rand":
        m = g.random((ns, nf)) < rnd.choice([0.1, 0.3, 0.6, 0.9])
    elif mode == "full":
        m = np.ones((ns, nf), bool)
    elif mode == "single":
        m = np.zeros((ns, nf), bool)
        m[rnd.randrange(ns), rnd.randrange(nf)] = True
    elif mode == "corners":
        m = g.random((ns, nf)) < 0.2
        m[0, 0] = m[0, -1] = m[-1, 0] = m[-1, -1] = True
    elif mode == "emptyrows":
        m = g.random((ns, nf)) < 0.6
        m[::2, :] = False
    else:
        m = (np.indices((ns, nf)).sum(0) % 2) == 0
    if not m.any():
        m[rnd.randrange(ns), rnd.randrange(nf)] = True
    r, c = np.nonzero(m)
    ro = co = 0
    if allow_offset:
        ro = rnd.choice([0, 0, 0, 1, 65535 - ns])
        co = rnd.choice([0, 0, 0, 1, 65535 - nf])
    return (r + ro).astype(np.uint16), (c + co).astype(np.uint16), ns, nf, ro, co


def rot(g):
    q, r = np.linalg.qr(g.normal(size=(3, 3)))
    if np.linalg.det(q) < 0:
        q[:, 0] *= -1
    return q


def ubi_and_gv(rnd, g, ng):
    a = g.uniform(3, 9, 3)
    ubi = (np.diag(a) @ rot(g).T)
    ub = np.linalg.inv(ubi)
    hkl = g.integers(-6, 7, (ng, 3)).astype(float)
    gv = hkl @ ub.T + g.normal(0, 0.002, (ng, 3))
    if ng:
        rndsel = g.random(ng) < 0.3
        gv[rndsel] = g.normal(0, 0.3, (int(rndsel.sum()), 3))
    return ubi, gv


def peak_count(rnd, tier):
    c = [0, 0, 1, 2, 3, 5, 8, 17, 33, 64]
    if tier == "thorough":
        c += [4095, 4096, 4097, 8192, 8193, 12289]
    else:
        c += [4096, 4097]
    return rnd.choice(c)


# ---------------------------------------------------------------------- generators: one per kernel
# each returns (vals, roles, promise) ; promise[arg] in: "all" | ["first", mult] (first mult*ret elements)
#   | ["firstn", n] | ["ifret0"] | "none"
GEN = {}


def gen(name):
    def deco(f):
        GEN[name] = f
        return f
    return deco


@gen("connectedpixels")
def _(rnd, g, tier):
    ns, nf = shape2(rnd, 2, big=(tier == "thorough" and rnd.random() < 0.03))
    im = img_f32(g, ns, nf, rnd.choice([0, 1, 2]))
    if rnd.random() < 0.008:
        # more than 16384 / 32768 provisional labels at the native table size: the label table grows once / twice
        ns, nf = rnd.choice([(260, 260), (366, 366)])
        im = np.zeros((ns, nf), np.float32)
        im[::2, ::2] = 10
        return ({"data": L(im), "labels": [ns, nf], "threshold": 5.0, "verbose": 0, "con8": 1, "ns": ns, "nf": nf, "_native_table": 1},
                {"data": "in", "labels": "out"}, {"labels": "all"})
    th = rnd.choice([0.0, 1.0, 2.0, 5.0, 50.0, float(im[rnd.randrange(ns), rnd.randrange(nf)]), -1.0, 1000.0])
    return ({"data": L(im), "labels": [ns, nf], "threshold": th, "verbose": rnd.choice([0, 0, 0, 1]), "con8": rnd.choice([0, 1, 1]),
             "ns": ns, "nf": nf}, {"data": "in", "labels": "out"}, {"labels": "all"})


@gen("blobproperties")
def _(rnd, g, tier):
    ns, nf = shape2(rnd, 1)
    npk = rnd.choice([0, 1, 2, 5, 9])
    lab = g.integers(0, npk + 1, (ns, nf)).astype(np.int32)
    if rnd.random() < 0.2 and npk:
        lab[rnd.randrange(ns), rnd.randrange(nf)] = npk  # label at capacity
    if rnd.random() < 0.15:
        lab[rnd.randrange(ns), rnd.randrange(nf)] = rnd.choice([-1, -1, -2, -7])   # pixels marked as masked: counted as bad, skipped
    return ({"data": L(img_f32(g, ns, nf)), "labels": L(lab), "np": npk, "omega": rnd.choice([0.0, -3.5, 12.25]),
             "verbose": rnd.choice([0, 0, 0, 1]), "ns": ns, "nf": nf, "results": [npk, NPROPERTY]},
            {"data": "in", "labels": "in", "results": "out"}, {"results": "all"})


def _blob_results(g, lab, npk, omega):
    """properties as blobproperties would leave them (pixel sums), enough for merge()"""
    res = np.zeros((npk, NPROPERTY))
    for k in range(npk):
        n = int((lab == k + 1).sum())
        res[k, 0] = n
        res[k, 1:12] = g.random(11) * n
        res[k, 12] = g.random() * 50
        res[k, 13:16] = g.integers(0, 9, 3)
        res[k, 16:19] = [7, 7, omega]
        res[k, 19:22] = [1, 1, omega]
    return res


@gen("bloboverlaps")
def _(rnd, g, tier):
    ns, nf = shape2(rnd, 1)
    n1, n2 = rnd.choice([0, 1, 2, 4, 7]), rnd.choice([0, 1, 2, 4, 7])
    l1 = g.integers(0, n1 + 1, (ns, nf)).astype(np.int32)
    l2 = g.integers(0, n2 + 1, (ns, nf)).astype(np.int32)
    if rnd.random() < 0.3:
        l1[g.random((ns, nf)) < 0.5] = 0
    return ({"labels1": L(l1), "npk1": n1, "results1": L(_blob_results(g, l1, n1, 1.0)),
             "labels2": L(l2), "npk2": n2, "results2": L(_blob_results(g, l2, n2, 2.0)),
             "verbose": rnd.choice([0, 0, 0, 1]), "ns": ns, "nf": nf},
            {"labels1": "io", "results1": "io", "labels2": "io", "results2": "io"},
            {"labels1": "all", "results1": "all", "labels2": "all", "results2": "all"})


@gen("blob_moments")
def _(rnd, g, tier):
    npk = rnd.choice([0, 1, 3, 8])
    res = g.random((npk, NPROPERTY)) * 10
    if npk:
        res[rnd.randrange(npk), 0] = 0  # an emptied blob is skipped
    return ({"results": L(res), "np": npk}, {"results": "io"}, {"results": "all"})


@gen("clean_mask")
def _(rnd, g, tier):
    ns, nf = shape2(rnd, 2)
    m = (g.random((ns, nf)) < rnd.choice([0.1, 0.5, 0.9, 1.0])).astype(np.int8)
    return ({"msk": L(m), "ret": [ns, nf], "ns": ns, "nf": nf}, {"msk": "in", "ret": "out"}, {"ret": "all"})


@gen("make_clean_mask")
def _(rnd, g, tier):
    ns, nf = shape2(rnd, 2)
    return ({"img": L(img_f32(g, ns, nf)), "cut": rnd.choice([0.0, 30.0, 99.0, 200.0]), "msk": [ns, nf],
             "ret": [ns, nf], "ns": ns, "nf": nf},
            {"img": "in", "msk": "out", "ret": "out"}, {"msk": "all", "ret": "all"})


@gen("localmaxlabel")
def _(rnd, g, tier):
    ns, nf = shape2(rnd, 3)
    if rnd.random() < 0.1:
        nf = 2          # a strip of two columns: every pixel is on the border
    elif rnd.random() < 0.05:
        ns = 2
    im = g.permutation(ns * nf).astype(np.float32).reshape(ns, nf)
    return ({"data": L(im), "labels": [ns, nf], "wrk": [ns, nf], "ns": ns, "nf": nf},
            {"data": "in", "labels": "out", "wrk": "work"}, {"labels": "all"})


@gen("splat")
def _(rnd, g, tier):
    w, h = rnd.choice([1, 2, 5, 16]), rnd.choice([1, 3, 8, 16])
    ng = rnd.choice([0, 1, 5, 20])
    gve = g.normal(0, 0.6, (ng, 3))
    u = rot(g).ravel() * rnd.choice([0.5, 1.0, 2.0])
    return ({"rgba": [h, w, 4], "w": w, "h": h, "gve": L(gve), "ng": ng, "u": L(u), "npx": rnd.choice([0, 1, 2])},
            {"rgba": "out", "gve": "io", "u": "in"}, {"rgba": "all", "gve": "all"})


@gen("cimaged11_omp_set_num_threads")
def _(rnd, g, tier):
    return ({"n": rnd.choice([1, 2, 7, 64])}, {}, {})


@gen("cimaged11_omp_get_max_threads")
def _(rnd, g, tier):
    return ({}, {}, {})


@gen("mask_to_coo")
def _(rnd, g, tier):
    ns, nf = shape2(rnd, 1)
    if tier == "thorough" and rnd.random() < 0.02:
        ns, nf = rnd.choice([(2, 65535), (65535, 1), (3, 40000)])
    m = (g.random((ns, nf)) < rnd.choice([0.05, 0.5, 1.0])).astype(np.int8)
    if rnd.random() < 0.3:
        m[0, 0] = m[-1, -1] = 1
    if rnd.random() < 0.3 and ns > 1:
        m[rnd.randrange(ns), :] = 0
    nnz = int((m != 0).sum())
    if rnd.random() < 0.2:
        # masks are int8: flagged pixels may be -1 (or 255 seen as int8), 2, 127 ... the caller may have counted "!= 0" or,
        # as sparseframe.from_data_mask does, "> 0"; a count the kernel disagrees with must be refused (return 4), not overrun
        for _ in range(rnd.randint(1, 4)):
            m[rnd.randrange(ns), rnd.randrange(nf)] = rnd.choice([-1, -1, -128, 2, 127])
        nnz = int((m != 0).sum()) if rnd.random() < 0.5 else int((m > 0).sum())
    if rnd.random() < 0.1:
        nnz = max(1, nnz + rnd.choice([-1, 1]))  # wrong size announced: must be refused (return 4), not overrun
    if nnz < 1:
        m[0, 0] = 1
        nnz = 1
    return ({"msk": L(m), "ns": ns, "nf": nf, "i": [nnz], "j": [nnz], "nnz": nnz, "w": [ns]},
            {"msk": "in", "i": "out", "j": "out", "w": "work"}, {"i": ["ifret0"], "j": ["ifret0"]})


def _sp(rnd, g):
    r, c, ns, nf, ro, co = sparse_pattern(rnd, g)
    v = (g.random(len(r)) * 100).astype(np.float32)
    return r, c, v, ns, nf, ro, co


@gen("sparse_is_sorted")
def _(rnd, g, tier):
    r, c, v, ns, nf, ro, co = _sp(rnd, g)
    if rnd.random() < 0.4:
        p = g.permutation(len(r))
        r, c = r[p], c[p]
    return ({"i": L(r), "j": L(c), "nnz": len(r)}, {"i": "in", "j": "in"}, {})


@gen("sparse_connectedpixels")
def _(rnd, g, tier):
    r, c, v, ns, nf, ro, co = _sp(rnd, g)
    th = rnd.choice([-1.0, 0.0, 30.0, 60.0, 99.0, float(v[rnd.randrange(len(v))])])
    return ({"v": L(v), "i": L(r), "j": L(c), "nnz": len(r), "threshold": th, "labels": [len(r)]},
            {"v": "in", "i": "in", "j": "in", "labels": "out"}, {"labels": "all"})


@gen("sparse_connectedpixels_splat")
def _(rnd, g, tier):
    r, c, ns, nf, ro, co = sparse_pattern(rnd, g, allow_offset=False)
    v = (g.random(len(r)) * 100).astype(np.float32)
    ni, nj = int(r.max()) + 1 + rnd.choice([0, 0, 1, 3]), int(c.max()) + 1 + rnd.choice([0, 0, 2])
    th = rnd.choice([-1.0, 0.0, 30.0, 60.0, 99.0])
    return ({"v": L(v), "i": L(r), "j": L(c), "nnz": len(r), "th": th, "lbl": L(np.zeros(len(r), np.int32)),
             "Z": [ni * nj + 2 * ni + 2 * nj + 4], "ni": ni, "nj": nj},
            {"v": "in", "i": "in", "j": "in", "lbl": "io", "Z": "work"}, {"lbl": "all"})


@gen("sparse_blob2Dproperties")
def _(rnd, g, tier):
    r, c, v, ns, nf, ro, co = _sp(rnd, g)
    npk = rnd.choice([0, 1, 3, 6])
    lab = g.integers(0, npk + 1, len(r)).astype(np.int32)
    if npk and rnd.random() < 0.3:
        lab[rnd.randrange(len(r))] = npk
    return ({"v": L(v), "i": L(r), "j": L(c), "nnz": len(r), "labels": L(lab), "results": [npk, NPROPERTY2D], "npk": npk},
            {"v": "in", "i": "in", "j": "in", "labels": "in", "results": "out"}, {"results": "all"})


@gen("sparse_smooth")
def _(rnd, g, tier):
    r, c, v, ns, nf, ro, co = _sp(rnd, g)
    return ({"v": L(v), "i": L(r), "j": L(c), "nnz": len(r), "s": [len(r)]},
            {"v": "in", "i": "in", "j": "in", "s": "out"}, {"s": "all"})


@gen("sparse_localmaxlabel")
def _(rnd, g, tier):
    r, c, v, ns, nf, ro, co = _sp(rnd, g)
    v = (g.permutation(len(r)) + 1).astype(np.float32)
    n = len(r)
    return ({"v": L(v), "i": L(r), "j": L(c), "nnz": n, "MV": [n], "iMV": [n], "labels": [n]},
            {"v": "in", "i": "in", "j": "in", "MV": "work", "iMV": "work", "labels": "out"}, {"labels": "all"})


def _two_frames(rnd, g):
    r1, c1, ns, nf, ro, co = sparse_pattern(rnd, g, allow_offset=False)
    mode = rnd.choice(["indep", "same", "subset", "disjoint", "lastpixel"])
    if mode == "same":
        r2, c2 = r1.copy(), c1.copy()
    elif mode == "subset":
        k = g.random(len(r1)) < 0.5
        if not k.any():
            k[0] = True
        r2, c2 = r1[k], c1[k]
    elif mode == "disjoint":
        r2, c2 = (r1 + 20).astype(np.uint16), c1.copy()
    elif mode == "lastpixel":
        r2, c2 = r1[-1:].copy(), c1[-1:].copy()
    else:
        r2, c2, _, _, _, _ = sparse_pattern(rnd, g, allow_offset=False)
    return r1, c1, r2, c2


@gen("sparse_overlaps")
def _(rnd, g, tier):
    r1, c1, r2, c2 = _two_frames(rnd, g)
    return ({"i1": L(r1), "j1": L(c1), "k1": [len(r1)], "nnz1": len(r1),
             "i2": L(r2), "j2": L(c2), "k2": [len(r2)], "nnz2": len(r2)},
            {"i1": "in", "j1": "in", "k1": "out", "i2": "in", "j2": "in", "k2": "out"}, {"k1": "all", "k2": "all"})


@gen("compress_duplicates")
def _(rnd, g, tier):
    n = rnd.choice([1, 1, 2, 3, 8, 30])
    vmax = rnd.choice([0, 1, 3, 10])
    i = g.integers(0, vmax + 1, n).astype(np.int32)
    j = g.integers(0, vmax + 1, n).astype(np.int32)
    nt = int(max(i.max(), j.max())) + 1 + rnd.choice([0, 0, 1, 5])
    return ({"i": L(i), "j": L(j), "oi": [n], "oj": [n], "tmp": [nt], "n": n, "nt": nt},
            {"i": "io", "j": "io", "oi": "out", "oj": "work", "tmp": "work"},
            {"i": ["first", 1], "j": ["first", 1], "oi": ["first", 1]})


@gen("coverlaps")
def _(rnd, g, tier):
    r1, c1, r2, c2 = _two_frames(rnd, g)
    n1, n2 = rnd.choice([1, 2, 5]), rnd.choice([1, 3, 4])
    l1 = g.integers(1, n1 + 1, len(r1)).astype(np.int32)
    l2 = g.integers(1, n2 + 1, len(r2)).astype(np.int32)
    l1[rnd.randrange(len(l1))] = n1
    l2[rnd.randrange(len(l2))] = n2
    return ({"row1": L(r1), "col1": L(c1), "labels1": L(l1), "nnz1": len(r1), "row2": L(r2), "col2": L(c2),
             "labels2": L(l2), "nnz2": len(r2), "mat": [n1, n2], "npk1": n1, "npk2": n2, "results": [3 * n1 * n2]},
            {"row1": "in", "col1": "in", "labels1": "in", "row2": "in", "col2": "in", "labels2": "in",
             "mat": "out", "results": "out"}, {"mat": "all", "results": ["first", 3]})


def _tosparse(dt, cutkind):
    def f(rnd, g, tier):
        ns, nf = shape2(rnd, 1)
        if dt == np.float32:
            img = img_f32(g, ns, nf)
        else:
            img = g.integers(0, 2 ** (16 if dt == np.uint16 else 32) - 1, (ns, nf)).astype(dt)
            img[g.random((ns, nf)) < 0.3] = 0
        m = (g.random((ns, nf)) < rnd.choice([0.0, 0.5, 1.0])).astype(np.uint8)
        cut = rnd.choice([0, 1, 50, 30000])
        nsel = int(((m != 0) & (img > cut)).sum())
        if dt == np.uint32 and nsel >= 1 and rnd.random() < 0.4:
            # tosparse_u32 declares its outputs dimension(*): a caller that knows the count may pass arrays of exactly that size
            return ({"img": L(img), "msk": L(m), "row": [nsel], "col": [nsel], "val": [nsel],
                     "cut": cut if cutkind == "int" else float(cut), "ns": ns, "nf": nf},
                    {"img": "in", "msk": "in", "row": "out", "col": "out", "val": "out"},
                    {"row": ["first", 1], "col": ["first", 1], "val": ["first", 1]})
        return ({"img": L(img), "msk": L(m), "row": [ns, nf], "col": [ns, nf], "val": [ns, nf],
                 "cut": cut if cutkind == "int" else float(cut), "ns": ns, "nf": nf},
                {"img": "in", "msk": "in", "row": "out", "col": "out", "val": "out"},
                {"row": ["first", 1], "col": ["first", 1], "val": ["first", 1]})
    return f


GEN["tosparse_u16"] = _tosparse(np.uint16, "int")
GEN["tosparse_u32"] = _tosparse(np.uint32, "float")
GEN["tosparse_f32"] = _tosparse(np.float32, "float")


@gen("verify_rounding")
def _(rnd, g, tier):
    return ({"n": rnd.choice([0, 1, 20, 1000, 100000])}, {}, {})


@gen("closest_vec")
def _(rnd, g, tier):
    nv, dim = rnd.choice([0, 1, 2, 5, 17]), rnd.choice([1, 2, 3, 6])
    return ({"x": L(g.normal(size=(nv, dim))), "dim": dim, "nv": nv, "ic": [nv]},
            {"x": "in", "ic": "out"}, {"ic": "all"})


@gen("closest")
def _(rnd, g, tier):
    nx, nv = rnd.choice([0, 1, 4, 9]), rnd.choice([0, 1, 3])
    return ({"x": L(g.normal(size=nx)), "v": L(g.normal(size=nv)), "ibest": [1], "best": [1], "nx": nx, "nv": nv},
            {"x": "in", "v": "in", "ibest": "out", "best": "out"}, {"ibest": "all", "best": "all"})


@gen("score")
def _(rnd, g, tier):
    ng = peak_count(rnd, "quick")
    ubi, gv = ubi_and_gv(rnd, g, ng)
    return ({"ubi": L(ubi), "gv": L(gv), "tol": rnd.choice([0.01, 0.05, 0.2, 0.5]), "ng": ng},
            {"ubi": "in", "gv": "in"}, {})


@gen("score_and_refine")
def _(rnd, g, tier):
    ng = rnd.choice([0, 1, 2, 3, 4, 10, 50])
    ubi, gv = ubi_and_gv(rnd, g, ng)
    return ({"ubi": L(ubi), "gv": L(gv), "tol": rnd.choice([0.01, 0.05, 0.2, 0.5]), "n": [1], "sumdrlv2": [1], "ng": ng},
            {"ubi": "io", "gv": "in", "n": "out", "sumdrlv2": "out"}, {"ubi": "all", "n": "all", "sumdrlv2": "all"})


@gen("score_and_assign")
def _(rnd, g, tier):
    ng = peak_count(rnd, tier)
    ubi, gv = ubi_and_gv(rnd, g, ng)
    drl = np.where(g.random(ng) < 0.5, 1e6, g.random(ng) * 0.01)
    lab = g.integers(-1, 4, ng).astype(np.int32)
    return ({"ubi": L(ubi), "gv": L(gv), "tol": rnd.choice([0.01, 0.05, 0.2, 0.5]), "drlv2": L(drl), "labels": L(lab),
             "label": rnd.choice([0, 1, 3, 7]), "ng": ng},
            {"ubi": "in", "gv": "in", "drlv2": "io", "labels": "io"}, {"drlv2": "all", "labels": "all"})


@gen("refine_assigned")
def _(rnd, g, tier):
    ng = rnd.choice([0, 1, 2, 3, 4, 10, 50])
    ubi, gv = ubi_and_gv(rnd, g, ng)
    lab = g.integers(-1, 3, ng).astype(np.int32)
    return ({"ubi": L(ubi), "gv": L(gv), "labels": L(lab), "label": rnd.choice([0, 1, 2, 5]), "npk": [1], "drlv2": [1], "ng": ng},
            {"ubi": "io", "gv": "in", "labels": "in", "npk": "out", "drlv2": "out"},
            {"ubi": "all", "npk": "all", "drlv2": "all"})


def _put_incr(rnd, g, tier):
    m, n = rnd.choice([1, 2, 9, 40]), rnd.choice([0, 1, 5, 60])
    bc = rnd.choice([0, 1])
    ind = g.integers(0, m, n)
    if bc and n:
        ind[rnd.randrange(n)] = rnd.choice([-1, m, m + 5])  # out of range is legal with boundscheck on
    return ({"data": L(g.random(m).astype(np.float32)), "ind": L(ind), "vals": L(g.random(n).astype(np.float32)),
             "boundscheck": bc, "n": n, "m": m}, {"data": "io", "ind": "in", "vals": "in"}, {"data": "all"})


def _put_incr64(rnd, g, tier):
    vals, roles, promise = _put_incr(rnd, g, tier)
    if vals["boundscheck"] and vals["n"] and rnd.random() < 0.5:
        # 64 bit indices: out of range by more than 32 bits, while their low 32 bits would be a valid position
        ind = list(vals["ind"])
        low = rnd.randrange(vals["m"])
        ind[rnd.randrange(vals["n"])] = rnd.choice([2 ** 32 + low, -2 ** 32 + low, 2 ** 40 + low, -2 ** 62 + low])
        vals["ind"] = ind
    return vals, roles, promise


GEN["put_incr64"] = _put_incr64
GEN["put_incr32"] = _put_incr


@gen("cluster1d")
def _(rnd, g, tier):
    n = rnd.choice([1, 1, 2, 5, 20])
    ar = np.round(g.random(n) * 5, 1)
    order = np.argsort(ar, kind="stable").astype(np.int32)
    return ({"ar": L(ar), "n": n, "order": L(order), "tol": rnd.choice([0.0, 0.05, 0.3, 10.0]), "nclusters": [1],
             "ids": [n], "avgs": [n]},
            {"ar": "in", "order": "in", "nclusters": "out", "ids": "out", "avgs": "out"},
            {"nclusters": "all", "ids": "all", "avgs": ["first_of", "nclusters"]})


@gen("score_gvec_z")
def _(rnd, g, tier):
    n = rnd.choice([0, 1, 2, 7, 33, 64])
    ubi, gv = ubi_and_gv(rnd, g, n)
    gv = gv + 0.05  # keep away from the axis and the origin
    rec = rnd.choice([0, 1, 1])
    vals = {"ubi": L(ubi), "ub": L(np.linalg.inv(ubi)), "gv": L(gv), "e": [n, 3], "recompute": rec, "n": n}
    roles = {"ubi": "in", "ub": "in", "gv": "in", "e": "out"}
    prom = {"e": "all"}
    for nm in ("g0", "g1", "g2"):
        if rec:
            vals[nm] = [n, 3]
            roles[nm] = "out"
        else:
            vals[nm] = L(g.normal(size=(n, 3)))
            roles[nm] = "io"
        prom[nm] = "all"
    return vals, roles, prom


def _misori(rnd, g, tier):
    return ({"u1": L(rot(g)), "u2": L(rot(g))}, {"u1": "in", "u2": "in"}, {})


for _n in ("misori_cubic", "misori_orthorhombic", "misori_tetragonal", "misori_monoclinic"):
    GEN[_n] = _misori


@gen("count_shared")
def _(rnd, g, tier):
    ni, nj = rnd.choice([0, 1, 4, 12]), rnd.choice([0, 1, 5, 9])
    pi = np.sort(g.choice(30, ni, replace=False)).astype(np.int32)
    pj = np.sort(g.choice(30, nj, replace=False)).astype(np.int32)
    return ({"pi": L(pi), "ni": ni, "pj": L(pj), "nj": nj}, {"pi": "in", "pj": "in"}, {})


def _geom(name, width):
    def f(rnd, g, tier):
        ng = peak_count(rnd, "quick" if name == "compute_geometry" else tier)
        ng = min(ng, 4097)
        xl = g.normal(0, 5e4, (ng, 3))
        xl[:, 0] = np.abs(xl[:, 0]) + 1e5
        om = g.uniform(-180, 180, ng)
        outn = "out" if name == "compute_geometry" else "gv"
        return ({"xlylzl": L(xl), "omega": L(om), "omegasign": rnd.choice([1.0, -1.0]), "wvln": rnd.choice([0.15, 0.5]),
                 "wedge": rnd.choice([0.0, 3.0]), "chi": rnd.choice([0.0, -2.0]), "t": L(g.normal(0, 100, 3)),
                 outn: [ng, width], "ng": ng},
                {"xlylzl": "in", "omega": "in", "t": "in", outn: "out"}, {outn: "all"})
    return f


GEN["compute_geometry"] = _geom("compute_geometry", 6)
GEN["compute_gv"] = _geom("compute_gv", 3)


@gen("compute_xlylzl")
def _(rnd, g, tier):
    n = rnd.choice([0, 1, 2, 9, 100])
    return ({"s": L(g.uniform(0, 2048, n)), "f": L(g.uniform(0, 2048, n)), "p": [1000.0, 1020.0, 50.0, -50.0],
             "r": L(rot(g).ravel()), "dist": [1e5, 3.0, -2.0], "xlylzl": [n, 3], "n": n},
            {"s": "in", "f": "in", "p": "in", "r": "in", "dist": "in", "xlylzl": "out"}, {"xlylzl": "all"})


@gen("quickorient")
def _(rnd, g, tier):
    return ({"ubi": L(g.normal(size=(3, 3))), "bt": L(g.normal(size=(3, 3)))}, {"ubi": "io", "bt": "in"}, {"ubi": "all"})


@gen("uint16_to_float_darksub")
def _(rnd, g, tier):
    n = rnd.choice([0, 1, 7, 64, 1000])
    return ({"img": [n], "drk": L(g.random(n).astype(np.float32)), "data": L(g.integers(0, 65536, n)), "npx": n},
            {"img": "out", "drk": "in", "data": "in"}, {"img": "all"})


@gen("uint16_to_float_darkflm")
def _(rnd, g, tier):
    n = rnd.choice([0, 1, 7, 64, 1000])
    return ({"img": [n], "drk": L(g.random(n).astype(np.float32)), "flm": L(g.random(n).astype(np.float32)),
             "data": L(g.integers(0, 65536, n)), "npx": n},
            {"img": "out", "drk": "in", "flm": "in", "data": "in"}, {"img": "all"})


@gen("frelon_lines")
def _(rnd, g, tier):
    ns, nf = shape2(rnd, 1)
    return ({"img": L(img_f32(g, ns, nf)), "ns": ns, "nf": nf, "cut": rnd.choice([-1.0, 50.0, 200.0])},
            {"img": "io"}, {"img": "all"})


@gen("frelon_lines_sub")
def _(rnd, g, tier):
    ns, nf = shape2(rnd, 1)
    return ({"img": L(img_f32(g, ns, nf)), "drk": L(img_f32(g, ns, nf)), "ns": ns, "nf": nf,
             "cut": rnd.choice([-200.0, 0.0, 200.0])}, {"img": "io", "drk": "io"}, {"img": "all", "drk": "all"})


@gen("array_mean_var_cut")
def _(rnd, g, tier):
    n = rnd.choice([1, 2, 9, 100, 1000])
    return ({"img": L((g.random(n) * 100).astype(np.float32)), "npx": n, "mean": [1], "var": [1],
             "n": rnd.choice([0, 1, 3]), "cut": rnd.choice([1.0, 3.0]), "verbose": rnd.choice([0, 0, 0, 1])},
            {"img": "in", "mean": "out", "var": "out"}, {"mean": "all", "var": "all"})


@gen("array_mean_var_msk")
def _(rnd, g, tier):
    n = rnd.choice([1, 2, 9, 100, 1000])
    return ({"img": L((g.random(n) * 100).astype(np.float32)), "msk": [n], "npx": n, "mean": [1], "var": [1],
             "n": rnd.choice([0, 1, 3]), "cut": rnd.choice([1.0, 3.0]), "verbose": rnd.choice([0, 0, 0, 1])},
            {"img": "in", "msk": "out", "mean": "out", "var": "out"}, {"msk": "all", "mean": "all", "var": "all"})


@gen("array_stats")
def _(rnd, g, tier):
    n = rnd.choice([1, 2, 9, 100, 1000])
    return ({"img": L((g.random(n) * 100).astype(np.float32)), "npx": n, "minval": [1], "maxval": [1], "mean": [1], "var": [1]},
            {"img": "in", "minval": "out", "maxval": "out", "mean": "out", "var": "out"},
            {"minval": "all", "maxval": "all", "mean": "all", "var": "all"})


@gen("array_histogram")
def _(rnd, g, tier):
    n, nh = rnd.choice([0, 1, 9, 100]), rnd.choice([1, 2, 10, 64])
    img = (g.random(n) * 100).astype(np.float32)
    lo, hi = rnd.choice([(0.0, 100.0), (20.0, 80.0), (-5.0, 5.0)])
    if n and rnd.random() < 0.5:  # the documented use: low, high = min, max of the image
        lo, hi = float(img.min()), float(img.max()) + (0.0 if n > 1 and img.max() > img.min() else 1.0)
        img[rnd.randrange(n)] = hi
    return ({"img": L(img), "npx": n, "low": lo, "high": hi, "hist": [nh], "nhist": nh},
            {"img": "in", "hist": "out"}, {"hist": "all"})


def _reorder(dt, lut):
    def f(rnd, g, tier):
        n = rnd.choice([0, 1, 2, 9, 100, 1000])
        data = (g.random(n) * 1000).astype(dt)
        adr = g.permutation(n).astype(np.uint32) if not lut or rnd.random() < 0.5 else g.integers(0, max(n, 1), n).astype(np.uint32)
        return ({"data": L(data), "adr": L(adr), "out": [n], "N": n}, {"data": "in", "adr": "in", "out": "out"}, {"out": "all"})
    return f


GEN["reorder_u16_a32"] = _reorder(np.uint16, False)
GEN["reorder_f32_a32"] = _reorder(np.float32, False)
GEN["reorderlut_u16_a32"] = _reorder(np.uint16, True)
GEN["reorderlut_f32_a32"] = _reorder(np.float32, True)


@gen("reorder_u16_a32_a16")
def _(rnd, g, tier):
    ns, nf = shape2(rnd, 1)
    data = g.integers(0, 65536, (ns, nf)).astype(np.uint16)
    a0 = (np.arange(ns) * nf).astype(np.uint32)
    a1 = np.zeros((ns, nf), np.int16)
    for i in range(ns):
        t = g.permutation(nf) + i * nf
        a1[i, 0] = t[0] - a0[i]
        a1[i, 1:] = np.diff(t)
    return ({"data": L(data), "adr0": L(a0), "adr1": L(a1), "out": [ns, nf], "ns": ns, "nf": nf},
            {"data": "in", "adr0": "in", "adr1": "in", "out": "out"}, {"out": "all"})


@gen("bgcalc")
def _(rnd, g, tier):
    ns, nf = shape2(rnd, 1)
    return ({"img": L(img_f32(g, ns, nf)), "bg": [ns, nf], "msk": [ns, nf], "ns": ns, "nf": nf,
             "gain": rnd.choice([0.1, 0.5]), "sp": rnd.choice([0.0, 0.1]), "st": rnd.choice([1.0, 5.0])},
            {"img": "in", "bg": "out", "msk": "out"}, {"bg": "all", "msk": "all"})


# ---------------------------------------------------------------------- the check
class C20(object):
    id = "C20"
    engine = "simomp"
    time_keys = {"steps": "scheduler steps (one per instrumented access, GOMP entry or allocator call)"}
    fault_keys = ["switches", "realloc_moved", "realloc_stay", "alloc", "free", "parallel_runs", "concurrent_caller_runs"]
    tiers = {"quick": {"runs": 40000, "budget_s": 60, "selftest_every": 40, "fresh_selftest": 16},
             "thorough": {"runs": 12000000, "budget_s": 800, "selftest_every": 400, "fresh_selftest": 32}}
    rule = ("one run = (kernel from the pyf, arguments drawn to satisfy its documented preconditions with boundary "
            "emphasis, team 1..32, strategy, allocator knobs incl. tiny initial disjoint-set capacity and moving "
            "realloc) executed twice with complementary garbage in outputs/work/stacks/heap; distinct = distinct "
            "(kernel, argument digest, team); non-trivial = the kernel executed at least one checked access; 30 % of the runs repeat the call through the generated f2py wrapper with guard-padded arrays, a tenth run 2-4 concurrent caller threads for the kernels the pyf declares threadsafe; every call on a team of 2 or more is repeated under a second interleaving of the same team; 3 % of the runs draw teams of 65..256")
    components = {"real": enginea.COMPONENTS_REAL + ["every function exported by _cImageD11.pyf (machine code)"],
                  "stub": enginea.COMPONENTS_STUB}
    assumptions = ["bounds are exact for registered argument arrays and simulated heap blocks; indexing errors "
                   "confined to a kernel's own stack arrays are not visible",
                   "signed-overflow / shift / alignment (UBSan-only) checks are not reproduced by the access callbacks",
                   "intent(in) arrays the C source documents as in-place results are registered writable: "
                   "refine_assigned.ubi, make_clean_mask.msk, array_mean_var_msk.msk",
                   "preconditions assumed: images >= 2x2 where the kernel looks at neighbours, sorted duplicate-free "
                   "sparse coordinates with nnz >= 1, labels within 0..npk (1..npk for coverlaps), finite values, "
                   "permutation addresses for reorder_*"]

    def prepare(self, ctx):
        sim = enginea.prepare_sim(ctx)
        self.names = kernels.check_against_pyf()
        missing = [n for n in self.names if n not in GEN]
        if missing:
            raise runner.HarnessError("no argument generator for exported kernels: %s" % missing)
        self.threadsafe = set(kernels.threadsafe_kernels())
        mod = sys.modules["ImageD11._cImageD11"]
        if mod.NPROPERTY != NPROPERTY or mod.NPROPERTY2D != NPROPERTY2D:
            raise runner.HarnessError("NPROPERTY changed: %d %d" % (mod.NPROPERTY, mod.NPROPERTY2D))
        self.strict_selftest(ctx)

    def strict_selftest(self, ctx):
        """the checker must see what it claims to see: known-bad calls have to be reported, at the right place"""
        sim = ctx.sim
        cfg = enginea.draw_cfg(random.Random(1), max_team=1)
        i1 = np.array([0, 0, 1], np.uint16)
        j1 = np.array([0, 1, 1], np.uint16)
        # 1. an output array registered one element short
        vals = {"i1": i1, "j1": j1, "k1": [2], "nnz1": 3, "i2": i1, "j2": j1, "k2": [3], "nnz2": 3}
        roles = {"i1": "in", "j1": "in", "k1": "out", "i2": "in", "j2": "in", "k2": "out"}
        ret, arr, st = kernels.run_kernel(sim, "sparse_overlaps", vals, roles, cfg, track_conflicts=0)
        if st["violation"] != "oob" or st["viol_off"] != 8 or st["viol_rw"] != 2:
            raise runner.HarnessError("strict-mode self-test: a write one element past k1 was not reported (got %s)" % st["violation"])
        # 2. a write into a read-only region
        vals = {"img": np.ones((3, 3), np.float32), "cut": 0.5, "msk": np.zeros((3, 3), np.int8), "ret": [3, 3], "ns": 3, "nf": 3}
        ret, arr, st = kernels.run_kernel(sim, "make_clean_mask", vals, {"img": "in", "msk": "in", "ret": "out"}, cfg, track_conflicts=0)
        if st["violation"] != "write-to-readonly":
            raise runner.HarnessError("strict-mode self-test: a write into a read-only region was not reported")
        # 3. garbage differential sees an output that is not written
        d = {"entry": "sparse_connectedpixels_splat", "cfg": cfg, "gstyle": 0,
             "vals": {"v": [5.0, 0.0], "i": [0, 0], "j": [0, 1], "nnz": 2, "th": 1.0, "lbl": [2], "Z": [3 * 4], "ni": 1, "nj": 2},
             "roles": {"v": "in", "i": "in", "j": "in", "lbl": "out", "Z": "work"}, "promise": {"lbl": "all"}}
        r = self.execute(d, ctx)
        if not r["viol"] or r["viol"]["class"] != "garbage-dependent":
            raise runner.HarnessError("garbage-differential self-test: an unwritten output byte was not reported")

    def gen(self, rs, ctx):
        rnd = random.Random(rs)
        name = self.names[rnd.randrange(len(self.names))]
        g = np.random.default_rng(rnd.getrandbits(48))
        vals, roles, promise = GEN[name](rnd, g, ctx.tier)
        cfg = enginea.draw_cfg(rnd, max_team=32)
        if rnd.random() < 0.03:
            cfg["team"] = rnd.choice([65, 72, 96, 128, 129, 192, 256])      # the big machines (OMP_NUM_THREADS beyond 64)
            cfg["deliver"] = 0
        if vals.pop("_native_table", None):
            cfg["dset_cap"], cfg["strategy"], cfg["quantum"] = 0, "rtc", 50
        desc = {"entry": name, "vals": vals, "roles": roles, "promise": promise, "cfg": cfg,
                "gstyle": rnd.choice([0, 0, 1])}
        desc["f2py_route"] = rnd.random() < 0.3
        if name in self.threadsafe and rnd.random() < 0.35:
            # the pyf declares this kernel threadsafe (GIL released): several caller threads, each with its own
            # arguments, run it at the same time
            others = []
            for _ in range(rnd.choice([1, 1, 2, 3])):
                v2, r2, p2 = GEN[name](rnd, g, ctx.tier)
                others.append({"vals": v2, "roles": r2, "promise": p2})
            desc["concurrent"] = others
        return desc

    def describe(self, desc):
        d = {"entry": desc["entry"], "cfg": desc["cfg"], "roles": desc["roles"]}
        d["vals"] = {k: (v if not isinstance(v, list) or len(str(v)) < 200 else "<%d values>" % np.size(v))
                     for k, v in desc["vals"].items()}
        return d

    def _promised(self, desc, arrays, ret):
        out = {}
        for an, pr in desc["promise"].items():
            a = arrays[an].ravel()
            if pr == "all":
                out[an] = a
            elif pr[0] == "first":
                out[an] = a[:max(0, int(ret or 0)) * pr[1]]
            elif pr[0] == "firstn":
                out[an] = a[:pr[1]]
            elif pr[0] == "ifret0":
                out[an] = a if ret == 0 else a[:0]
            elif pr[0] == "first_of":
                out[an] = a[:max(0, int(arrays[pr[1]].ravel()[0]))]
        return out

    def execute(self, desc, ctx):
        sim = ctx.sim
        name = desc["entry"]
        cfg = desc["cfg"]
        res = []
        viol = None
        for flip in (False, True):
            ret, arrays, st = kernels.run_kernel(sim, name, desc["vals"], desc["roles"], cfg, flip=flip,
                                                 gstyle=desc["gstyle"], step_cap=30000000, pct_est=2000,
                                                 track_conflicts=0, replay=desc.get("replay"))
            v = enginea.viol_from_stats(st, name, kernels.region_names(name))
            if v is None and st["guard_broken"]:
                v = {"class": "oob", "key": name + ":oob",
                     "detail": "guard bytes next to argument(s) %s were overwritten by an uninstrumented store" % st["guard_broken"]}
            if v is not None:
                viol = v
                res.append((ret, {}, st))
                break
            res.append((ret, self._promised(desc, arrays, ret), st))
        if viol is None:
            (r1, p1, s1), (r2, p2, s2) = res
            same_ret = (r1 == r2) or (isinstance(r1, float) and isinstance(r2, float) and math.isnan(r1) and math.isnan(r2))
            if not same_ret:
                viol = {"class": "garbage-dependent", "key": name + ":garbage-dependent",
                        "detail": "return value depends on memory the kernel did not write: %r vs %r" % (r1, r2)}
            else:
                for an in p1:
                    b1, b2 = p1[an].view(np.uint8), p2[an].view(np.uint8)
                    if b1.shape != b2.shape or not np.array_equal(b1, b2):
                        k = int(np.argmax(b1 != b2)) if b1.shape == b2.shape else -1
                        viol = {"class": "garbage-dependent", "key": name + ":garbage-dependent",
                                "detail": "promised output '%s' differs between two runs that differ only in the previous "
                                          "content of output/work buffers, stack and heap (first differing byte %d of %d): "
                                          "not fully written, or computed from uninitialised memory" % (an, k, b1.size)}
                        break
        n_third = 0
        if viol is None and cfg["team"] > 1:
            # the same call, same team, same previous memory content, under another interleaving: what the kernel promises
            # does not depend on which thread gets where first (a float sum combined in arrival order may differ in rounding)
            cfg3 = dict(cfg, strategy="rtc" if cfg["strategy"] != "rtc" else "random", p_inv=2, quantum=1,
                        sched_seed=cfg["sched_seed"] ^ 0x5EED5EED)
            ret3, arrays3, st3 = kernels.run_kernel(sim, name, desc["vals"], desc["roles"], cfg3, flip=False, gstyle=desc["gstyle"],
                                                    step_cap=30000000, pct_est=2000, track_conflicts=0)
            n_third = 1
            v = enginea.viol_from_stats(st3, name, kernels.region_names(name))
            if v is None and st3["guard_broken"]:
                v = {"class": "oob", "key": name + ":oob",
                     "detail": "guard bytes next to argument(s) %s were overwritten by an uninstrumented store" % st3["guard_broken"]}
            if v is not None:
                viol = v
            else:
                r1, p1 = res[0][0], res[0][1]
                p3 = self._promised(desc, arrays3, ret3)
                loose = name in self.FLOAT_REDUCTIONS

                def same3(a, b):
                    a, b = np.asarray(a), np.asarray(b)
                    if a.shape != b.shape:
                        return False
                    if loose and a.dtype.kind == "f":
                        return np.allclose(a.astype(float), b.astype(float), rtol=1e-4, atol=1e-6, equal_nan=True)
                    return a.tobytes() == b.tobytes()
                bad3 = None
                if not same3(np.array(r1 if r1 is not None else 0), np.array(ret3 if ret3 is not None else 0)):
                    bad3 = "return value (%r / %r)" % (r1, ret3)
                for an in p1:
                    if bad3 is None and not same3(p1[an], p3[an]):
                        bad3 = "promised output '%s'" % an
                if bad3:
                    viol = {"class": "schedule-dependent", "key": name + ":schedule-dependent",
                            "detail": "%s differs between two interleavings of the same team of %d on the same arguments and the same "
                                      "previous memory content (%s / %s)" % (bad3, cfg["team"], cfg["strategy"], cfg3["strategy"])}
        if viol is None and name == "sparse_blob2Dproperties":
            # integer overflow is undefined behaviour the access seam cannot see; at the extreme coordinates a uint16 index
            # allows (products beyond 2^31) it shows in the values: the sums are compared with their definition
            vv = desc["vals"]
            v_, i_, j_ = np.array(vv["v"], float), np.array(vv["i"], float), np.array(vv["j"], float)
            lab_ = np.array(vv["labels"], int)
            got_ = np.asarray(res[0][1]["results"], float).reshape(-1, NPROPERTY2D)
            for pk in range(vv["npk"]):
                sel = lab_ == pk + 1
                want_ = [sel.sum(), v_[sel].sum(), (v_ * j_)[sel].sum(), (v_ * i_)[sel].sum(), (v_ * j_ * j_)[sel].sum(),
                         (v_ * i_ * j_)[sel].sum(), (v_ * i_ * i_)[sel].sum()]
                if not np.allclose(got_[pk, :7], want_, rtol=1e-9, atol=1e-6):
                    viol = {"class": "wrong-values", "key": name + ":wrong-values",
                            "detail": "moments of peak %d (coordinates up to %d, %d) are %s, their definition gives %s: integer "
                                      "arithmetic overflowed" % (pk + 1, int(i_.max()), int(j_.max()), np.round(got_[pk, :7], 1).tolist(),
                                                                 np.round(want_, 1).tolist())}
                    break
        nconc = 0
        f2 = None
        if viol is None and desc.get("f2py_route"):
            viol, f2 = self.exec_f2py(desc, ctx, res[0])
        if viol is None and desc.get("concurrent"):
            viol, nconc = self.exec_concurrent(desc, ctx, res[0])
        st = res[0][2]
        meas = enginea.run_measures(st, cfg)
        meas["kernel"] = {name: 1}
        meas["concurrent_caller_runs"] = 1 if nconc else 0
        meas["f2py_route"] = {f2: 1} if f2 else {}
        meas["concurrent_callers"] = nconc
        meas["second_interleaving_runs"] = n_third
        dig = enginea.sha(st["digest"], res[0][0], *[res[0][1][k] for k in sorted(res[0][1])])
        wd = enginea.sha(name, repr(desc["vals"]))
        return {"digest": dig, "sig": "%s/%s" % (wd, sorted(st["team_hist"].items())),
                "nontrivial": st["steps"] > 0, "viol": viol, "measures": meas}

    FLOAT_REDUCTIONS = ("array_mean_var_cut", "array_mean_var_msk", "array_stats")

    def exec_f2py(self, desc, ctx, strict0):
        """the same call the way Python callers make it: through the f2py wrapper generated from _cImageD11.pyf, with
        guard-padded arrays.  The wrapper must hand the kernel arrays of the sizes the kernel uses (guards intact), and
        in/out arrays and returned values must equal the strict kernel-level call"""
        sim = ctx.sim
        name, cfg = desc["entry"], desc["cfg"]
        mod = sys.modules["ImageD11._cImageD11"]
        fn = getattr(mod, name)
        first = (fn.__doc__ or "").splitlines()[0]
        if "=" in first:
            rets, call = first.split("=", 1)
            rets = [r.strip() for r in rets.split(",")]
        else:
            rets, call = [], first
        inner = call[call.index("(") + 1:call.rindex(")")]
        argnames = [a.strip() for a in inner.replace("[", ",").replace("]", "").split(",") if a.strip()]
        spec = {a: t for a, t in K[name]["args"]}
        kwargs, guards, passed = {}, [], {}
        gs = cfg["garbage_seed"]
        for idx, an in enumerate(argnames):
            ct = spec.get(an)
            if ct is None:
                return None, "signature-mismatch"
            if ct.endswith("*"):
                role = desc["roles"].get(an)
                if role in ("in", "io"):
                    a = kernels.to_array(desc["vals"][an], ct)
                else:
                    shape = tuple(desc["vals"][an])
                    # the size the WRAPPER asks for (its docstring), when it can be evaluated from the scalar arguments
                    import re
                    m = re.search(r"^%s : .*with bounds \((.*)\)\s*$" % re.escape(an), fn.__doc__ or "", re.M)
                    if m:
                        ns_ = {k: v for k, v in desc["vals"].items() if isinstance(v, (int, float))}
                        ns_.update({"NPROPERTY": NPROPERTY, "NPROPERTY2D": NPROPERTY2D})
                        try:
                            dims = tuple(int(eval(x, {"__builtins__": {}}, ns_)) for x in m.group(1).split(","))
                            # only when the wrapper asks for another SIZE than the kernel needs (splat's pyf, for one,
                            # names its dimensions (w,h,4) but takes h from axis 0)
                            if len(dims) == len(shape) and all(d >= 0 for d in dims) and int(np.prod(dims)) != int(np.prod(shape)):
                                shape = dims
                        except Exception:
                            pass
                    a = enginea.garbage_array(shape, DT[ct], gs + 31 * (idx + 1), desc["gstyle"])
                if a.size == 0:
                    return None, "refused(empty)"
                a, raw, off = kernels.padded(a)
                guards.append((an, raw, off, a.nbytes))
                kwargs[an] = a
                passed[an] = a
            else:
                kwargs[an] = desc["vals"][an]
        enginea.apply_cfg(sim, cfg, strict=0, track_conflicts=0, pct_est=2000, step_cap=30000000)
        sim.begin_run()
        try:
            with contextlib.redirect_stdout(io.StringIO()):
                out = fn(**kwargs)
        except Exception as e:
            # the wrapper's own argument checks refused the call (e.g. zero-size arrays): nothing ran
            return None, "refused(%s)" % type(e).__name__
        broken = [an for an, raw, off, nb in guards if not kernels.guards_intact(raw, off, nb)]
        if broken:
            return {"class": "oob", "key": name + ":f2py:oob",
                    "detail": "called through the f2py wrapper, %s wrote outside argument(s) %s (guard bytes overwritten)" %
                              (name, broken)}, "ran"
        ret0, prom0 = strict0[0], strict0[1]
        if not isinstance(out, tuple):
            out = (out,)
        got = dict(zip(rets, out))
        loose = name in self.FLOAT_REDUCTIONS

        def same(a, b):
            a, b = np.asarray(a), np.asarray(b)
            if a.shape != b.shape and a.size == b.size:
                a = a.reshape(b.shape)
            if a.shape != b.shape:
                return False
            if loose:
                return np.allclose(a.astype(float), b.astype(float), rtol=1e-4, atol=1e-6, equal_nan=True)
            return a.astype(b.dtype).tobytes() == b.tobytes()
        for an, want in prom0.items():
            if an in passed:
                have = passed[an].ravel()[:want.size]
            elif an in got:
                have = np.asarray(got[an]).ravel()[:want.size]
            else:
                continue
            if not same(have, want):
                return {"class": "wrapper-differs", "key": name + ":f2py:wrapper-differs",
                        "detail": "output '%s' of %s called through the f2py wrapper differs from the kernel-level call "
                                  "with the same arguments" % (an, name)}, "ran"
        if K[name]["ret"] != "void" and name in got and ret0 is not None:
            if not same(np.array(got[name]), np.array(ret0, dtype=np.asarray(got[name]).dtype)):
                return {"class": "wrapper-differs", "key": name + ":f2py:wrapper-differs",
                        "detail": "return value of %s through the f2py wrapper is %r, kernel-level call gives %r" %
                                  (name, got[name], ret0)}, "ran"
        return None, "ran"

    def exec_concurrent(self, desc, ctx, solo0):
        """each caller's result must equal the result of the same call made alone"""
        sim = ctx.sim
        name, cfg = desc["entry"], desc["cfg"]
        parts = [{"vals": desc["vals"], "roles": desc["roles"], "promise": desc["promise"]}] + desc["concurrent"]
        # a caller thread's own parallel regions are nested and therefore serialised: compare with a solo call on a
        # team of one (some kernels, e.g. frelon_lines, legitimately depend on how rows are chunked over threads)
        cfg = dict(cfg, team=1, deliver=1)
        solos = []
        for p in parts:
            ret, arrays, st = kernels.run_kernel(sim, name, p["vals"], p["roles"], cfg, gstyle=desc["gstyle"],
                                                 step_cap=30000000, track_conflicts=0)
            v = enginea.viol_from_stats(st, name, kernels.region_names(name))
            if v is not None:
                return v, len(parts)
            d = dict(desc)
            d["promise"] = p["promise"]
            solos.append((ret, self._promised(d, arrays, ret)))
        outs, st = kernels.run_concurrent(sim, [(name, p["vals"], p["roles"]) for p in parts], cfg,
                                          gstyle=desc["gstyle"], step_cap=60000000, pct_est=3000,
                                          replay=desc.get("replay_concurrent"))
        rn = {}
        for k in range(len(parts)):
            for i, a in enumerate(K[name]["args"]):
                rn[100 * (k + 1) + i + 1] = "caller%d.%s" % (k, a[0])
        v = enginea.viol_from_stats(st, name, rn)
        if v is not None:
            v["key"] = name + ":concurrent:" + v["class"]
            return v, len(parts)
        for k, p in enumerate(parts):
            ret, arrays = outs[k]
            d = dict(desc)
            d["promise"] = p["promise"]
            prom = self._promised(d, arrays, ret)
            sret, sprom = solos[k]
            same = (ret == sret) or (isinstance(ret, float) and isinstance(sret, float) and math.isnan(ret) and math.isnan(sret))
            bad = None if same else "return value"
            for an in sprom:
                if bad is None and prom[an].view(np.uint8).tobytes() != sprom[an].view(np.uint8).tobytes():
                    bad = "output '%s'" % an
            if bad:
                return {"class": "not-reentrant", "key": name + ":not-reentrant",
                        "detail": "%d caller threads ran %s at the same time, each on its own arguments; caller %d got a "
                                  "different %s than when it makes the same call alone (state shared between calls)"
                                  % (len(parts), name, k, bad)}, len(parts)
        return None, len(parts)

    def extra_evidence(self, results, ctx):
        return {"kernels_in_pyf": len(self.names)}


CHECK = C20()
if __name__ == "__main__":
    sys.exit(runner.main(CHECK))
