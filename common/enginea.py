"""
Shared pieces for checks that run on Engine A (simomp).
"""
from __future__ import print_function
import os, sys, random, hashlib, json
import numpy as np

VERIF = os.path.dirname(os.path.dirname(os.path.abspath(__file__)))
sys.path.insert(0, os.path.join(VERIF, "simomp"))
import build as simbuild  # noqa
import simlib  # noqa
from common.runner import HarnessError  # noqa

COMPONENTS_REAL = ["all nine C sources of /repo/src at -O2 (gcc tsan instrumentation pass, our callbacks)",
                   "f2py wrapper generated from /repo/src/_cImageD11.pyf"]
COMPONENTS_STUB = ["libgomp (replaced by simomp: coroutine team, seeded scheduler)",
                   "malloc/calloc/realloc/free/memset/memcpy as seen by the kernels (seeded arena, moving realloc)",
                   "printf/puts from the kernels (counted, silenced)", "exit/__assert_fail from the kernels (recorded)"]


def prepare_sim(ctx, import_imaged11=False):
    """build from /repo's current tree into the private scratch dir and load"""
    bdir = os.path.join(ctx.scratch, "build")
    try:
        path = simbuild.build(bdir)
    except simbuild.BuildError as e:
        raise HarnessError("cannot build the instrumented module from /repo/src: %s" % e)
    simlib.load_module(path)
    ctx.sim = simlib.Sim(path)
    ctx.sim.lib.sim_set_note_fd(2)
    if import_imaged11:
        repo = os.environ.get("VERIF_REPO", "/repo")
        if repo not in sys.path:
            sys.path.insert(0, repo)
        import ImageD11.cImageD11  # noqa  (picks up the instrumented _cImageD11 from sys.modules)
        import ImageD11
        if not os.path.abspath(ImageD11.__file__).startswith(os.path.abspath(repo)):
            raise HarnessError("ImageD11 imported from %s, not from %s" % (ImageD11.__file__, repo))
    return ctx.sim


def draw_cfg(rnd, max_team=32, allow_deliver=True, want_parallel=True):
    """swarm-style draw of team size, strategy and knobs; returns a JSON-able dict"""
    if want_parallel:
        team = rnd.choice([1, 2, 2, 3, 3, 4, 5, 6, 7, 8, 9, 12, 16, 17, 24, 31, 32, 48, 63, 64])
        while team > max_team:
            team = rnd.choice([1, 2, 3, 4, 5, 7, 8])
    else:
        team = 1
    strategy = rnd.choice(["random", "random", "pct", "pct", "rtc", "rr"])
    cfg = {"team": team, "strategy": strategy,
           "p_inv": rnd.choice([1, 2, 3, 4, 8, 16, 64, 256, 1024, 4096]),
           "quantum": rnd.choice([1, 2, 3, 7, 50]),
           "pct_d": rnd.choice([1, 2, 3, 4]),
           "deliver": 0,
           "sched_seed": rnd.getrandbits(48),
           "garbage_seed": rnd.getrandbits(48),
           "realloc_mode": rnd.choice([0, 0, 0, 1]),
           "dset_cap": rnd.choice([0, 4, 4, 5, 8, 64])}
    if allow_deliver and team > 1 and rnd.random() < 0.15:
        cfg["deliver"] = rnd.randint(1, team)
    return cfg


def apply_cfg(sim, cfg, strict=1, track_conflicts=1, pct_est=1000, step_cap=50000000, replay=None):
    strategy = cfg["strategy"]
    if replay is not None:
        strategy = "replay"
        sim.set_replay([tuple(x) for x in replay])
    sim.configure(seed=cfg["sched_seed"], garbage_seed=cfg["garbage_seed"], team=cfg["team"],
                  deliver=cfg.get("deliver", 0), strategy=strategy, p_inv=cfg["p_inv"], quantum=cfg["quantum"],
                  pct_d=cfg["pct_d"], pct_est=max(1, int(pct_est)), step_cap=step_cap, strict=strict,
                  realloc_mode=cfg.get("realloc_mode", 0), dset_cap=cfg.get("dset_cap", 0),
                  track_conflicts=track_conflicts)


def garbage_array(shape, dtype, seed, style=0, lo=None, hi=None):
    """seed-determined previous content for an output/work buffer"""
    g = np.random.default_rng(seed & 0xFFFFFFFFFFFF)
    dt = np.dtype(dtype)
    n = int(np.prod(shape)) if np.ndim(shape) or shape else 1
    if style == 1 and lo is not None:
        a = g.integers(lo, hi, size=n).astype(dt)  # plausible-looking values
    else:
        a = np.frombuffer(g.bytes(n * dt.itemsize), dtype=dt).copy()
        if dt.kind == "f":
            # keep it finite but nasty
            bad = ~np.isfinite(a)
            a[bad] = (-7.0e30 if style == 0 else 3.0)
    return a.reshape(shape)


def complement(a):
    """every byte differs from a's"""
    b = (~a.view(np.uint8)).view(a.dtype).copy()
    return b


def viol_from_stats(st, entry, regions=None):
    """turn a recorded runtime violation into a check violation record"""
    k = st["viol_kind"]
    if not k:
        return None
    cls = simlib.VIOL.get(k, "viol-%d" % k)
    rname = (regions or {}).get(st["viol_region"], st["viol_region"])
    detail = "%s in %s: region=%s offset=%d size=%d %s thread=%d step=%d" % (
        cls, entry, rname, st["viol_off"], st["viol_size"], {1: "read", 2: "write"}.get(st["viol_rw"], "-"),
        st["viol_tid"], st["viol_step"])
    return {"class": cls, "key": "%s:%s" % (entry, cls), "detail": detail}


def sha(*parts):
    h = hashlib.sha1()
    for p in parts:
        if isinstance(p, np.ndarray):
            h.update(np.ascontiguousarray(p).tobytes())
            h.update(str(p.shape).encode())
        else:
            h.update(repr(p).encode())
    return h.hexdigest()[:16]


def run_measures(st, cfg):
    return {"steps": st["steps"], "switches": st["nswitch"], "teams": st["nteams"], "conflicts": st["nconflict"],
            "alloc": st["nalloc"], "realloc_moved": st["nrealloc_moved"], "realloc_stay": st["nrealloc_stay"],
            "free": st["nfree"], "kernel_prints": st["prints"],
            "team_delivered": st["team_hist"], "strategy": {cfg["strategy"]: 1},
            "team_requested": {cfg["team"]: 1},
            "parallel_runs": 1 if any(int(k) > 1 for k in st["team_hist"]) else 0}


# ---------------------------------------------------------------------- minimisation
def ddmin(items, test, max_tests=400, max_seconds=90):
    """classic delta debugging: smallest sublist (order kept) for which test(sublist) is True"""
    import time as _time
    n = 2
    tests = [0]
    t_end = _time.time() + max_seconds

    def t(x):
        tests[0] += 1
        if _time.time() > t_end:
            tests[0] = max_tests  # stop refining, keep what we have
            return False
        return test(x)

    items = list(items)
    while len(items) >= 2 and tests[0] < max_tests:
        chunk = max(1, len(items) // n)
        subsets = [items[i:i + chunk] for i in range(0, len(items), chunk)]
        reduced = False
        for i in range(len(subsets)):
            comp = [x for j, s in enumerate(subsets) if j != i for x in s]
            if t(comp):
                items = comp
                n = max(n - 1, 2)
                reduced = True
                break
        if not reduced:
            if n >= len(items):
                break
            n = min(len(items), n * 2)
    if len(items) == 1 and tests[0] < max_tests and t([]):
        items = []
    return items


def shrink_image_desc(desc, fails, key="image", max_tests=120, min_side=2):
    """greedy cropping of a (ns, nf) image stored flat in desc[key]; fails(desc) -> bool keeps the violation class"""
    import time as _time
    t_end = _time.time() + 60
    tests = [0]
    cur = dict(desc)

    def crop(d, r0, r1, c0, c1):
        ns, nf = d["ns"], d["nf"]
        im = np.array(d[key]).reshape(ns, nf)[r0:ns - r1, c0:nf - c1]
        n = dict(d)
        n["ns"], n["nf"] = im.shape
        n[key] = im.ravel().tolist()
        return n
    progress = True
    while progress and tests[0] < max_tests and _time.time() < t_end:
        progress = False
        for cut in ((0, 1, 0, 0), (1, 0, 0, 0), (0, 0, 0, 1), (0, 0, 1, 0)):
            ns, nf = cur["ns"], cur["nf"]
            if (cut[0] + cut[1] and ns <= min_side) or (cut[2] + cut[3] and nf <= min_side):
                continue
            # try to remove half of the remaining extent first, then single lines
            for amount in (max(1, (ns if cut[0] + cut[1] else nf) // 2), 1):
                c = tuple(x * amount for x in cut)
                if (ns - c[0] - c[1]) < min_side or (nf - c[2] - c[3]) < min_side:
                    continue
                tests[0] += 1
                cand = crop(cur, *c)
                if fails(cand):
                    cur = cand
                    progress = True
                    break
    return cur
