"""
C prototypes of every kernel exported through _cImageD11.pyf, and a generic strict-mode runner.

The table is hand-written from the C sources; check_against_pyf() verifies that every wrapped function is
in the table with the same argument names in the same order (a mismatch is a HARNESS-ERROR, not a verdict).
"""
from __future__ import print_function
import os, sys
import numpy as np
from common import enginea
from common.enginea import simlib
from common.runner import HarnessError

DT = {"f32*": np.float32, "f64*": np.float64, "i8*": np.int8, "u8*": np.uint8, "i16*": np.int16,
      "u16*": np.uint16, "i32*": np.int32, "u32*": np.uint32, "i64*": np.int64}

K = {}


def kdef(name, ret, *args):
    K[name] = {"ret": ret, "args": [tuple(a.split(":")) for a in args]}


# --- connectedpixels.c
kdef("connectedpixels", "int", "data:f32*", "labels:i32*", "threshold:float", "verbose:int", "con8:int", "ns:int", "nf:int")
kdef("blobproperties", "void", "data:f32*", "labels:i32*", "np:int", "omega:float", "verbose:int", "ns:int", "nf:int", "results:f64*")
kdef("bloboverlaps", "int", "labels1:i32*", "npk1:int", "results1:f64*", "labels2:i32*", "npk2:int", "results2:f64*", "verbose:int", "ns:int", "nf:int")
kdef("blob_moments", "void", "results:f64*", "np:int")
kdef("clean_mask", "int", "msk:i8*", "ret:i8*", "ns:int", "nf:int")
kdef("make_clean_mask", "int", "img:f32*", "cut:float", "msk:i8*", "ret:i8*", "ns:int", "nf:int")
# --- localmaxlabel.c
kdef("localmaxlabel", "int", "data:f32*", "labels:i32*", "wrk:u8*", "ns:int", "nf:int")
# --- splat.c
kdef("splat", "void", "rgba:u8*", "w:int", "h:int", "gve:f64*", "ng:int", "u:f64*", "npx:int")
# --- cimaged11utils.c
kdef("cimaged11_omp_set_num_threads", "void", "n:int")
kdef("cimaged11_omp_get_max_threads", "int")
# --- sparse_image.c
kdef("mask_to_coo", "int", "msk:i8*", "ns:int", "nf:int", "i:u16*", "j:u16*", "nnz:int", "w:i32*")
kdef("sparse_is_sorted", "int", "i:u16*", "j:u16*", "nnz:int")
kdef("sparse_connectedpixels", "int", "v:f32*", "i:u16*", "j:u16*", "nnz:int", "threshold:float", "labels:i32*")
kdef("sparse_connectedpixels_splat", "int", "v:f32*", "i:u16*", "j:u16*", "nnz:int", "th:float", "lbl:i32*", "Z:i32*", "ni:int", "nj:int")
kdef("sparse_blob2Dproperties", "void", "v:f32*", "i:u16*", "j:u16*", "nnz:int", "labels:i32*", "results:f64*", "npk:int")
kdef("sparse_smooth", "void", "v:f32*", "i:u16*", "j:u16*", "nnz:int", "s:f32*")
kdef("sparse_localmaxlabel", "int", "v:f32*", "i:u16*", "j:u16*", "nnz:int", "MV:f32*", "iMV:i32*", "labels:i32*")
kdef("sparse_overlaps", "int", "i1:u16*", "j1:u16*", "k1:i32*", "nnz1:int", "i2:u16*", "j2:u16*", "k2:i32*", "nnz2:int")
kdef("compress_duplicates", "int", "i:i32*", "j:i32*", "oi:i32*", "oj:i32*", "tmp:i32*", "n:int", "nt:int")
kdef("coverlaps", "int", "row1:u16*", "col1:u16*", "labels1:i32*", "nnz1:int", "row2:u16*", "col2:u16*", "labels2:i32*", "nnz2:int", "mat:i32*", "npk1:int", "npk2:int", "results:i32*")
kdef("tosparse_u16", "int", "img:u16*", "msk:u8*", "row:u16*", "col:u16*", "val:u16*", "cut:int", "ns:int", "nf:int")
kdef("tosparse_u32", "int", "img:u32*", "msk:u8*", "row:u16*", "col:u16*", "val:u32*", "cut:float", "ns:int", "nf:int")
kdef("tosparse_f32", "int", "img:f32*", "msk:u8*", "row:u16*", "col:u16*", "val:f32*", "cut:float", "ns:int", "nf:int")
# --- closest.c
kdef("verify_rounding", "int", "n:int")
kdef("closest_vec", "void", "x:f64*", "dim:int", "nv:int", "ic:i32*")
kdef("closest", "void", "x:f64*", "v:f64*", "ibest:i32*", "best:f64*", "nx:int", "nv:int")
kdef("score", "int", "ubi:f64*", "gv:f64*", "tol:double", "ng:int")
kdef("score_and_refine", "void", "ubi:f64*", "gv:f64*", "tol:double", "n:i32*", "sumdrlv2:f64*", "ng:int")
kdef("score_and_assign", "int", "ubi:f64*", "gv:f64*", "tol:double", "drlv2:f64*", "labels:i32*", "label:int", "ng:int")
kdef("refine_assigned", "void", "ubi:f64*", "gv:f64*", "labels:i32*", "label:int", "npk:i32*", "drlv2:f64*", "ng:int")
kdef("put_incr64", "void", "data:f32*", "ind:i64*", "vals:f32*", "boundscheck:int", "n:int", "m:int")
kdef("put_incr32", "void", "data:f32*", "ind:i32*", "vals:f32*", "boundscheck:int", "n:int", "m:int")
kdef("cluster1d", "void", "ar:f64*", "n:int", "order:i32*", "tol:double", "nclusters:i32*", "ids:i32*", "avgs:f64*")
kdef("score_gvec_z", "void", "ubi:f64*", "ub:f64*", "gv:f64*", "g0:f64*", "g1:f64*", "g2:f64*", "e:f64*", "recompute:int", "n:int")
kdef("misori_cubic", "double", "u1:f64*", "u2:f64*")
kdef("misori_orthorhombic", "double", "u1:f64*", "u2:f64*")
kdef("misori_tetragonal", "double", "u1:f64*", "u2:f64*")
kdef("misori_monoclinic", "double", "u1:f64*", "u2:f64*")
kdef("count_shared", "int", "pi:i32*", "ni:int", "pj:i32*", "nj:int")
# --- cdiffraction.c
kdef("compute_geometry", "void", "xlylzl:f64*", "omega:f64*", "omegasign:double", "wvln:double", "wedge:double", "chi:double", "t:f64*", "out:f64*", "ng:int")
kdef("compute_gv", "void", "xlylzl:f64*", "omega:f64*", "omegasign:double", "wvln:double", "wedge:double", "chi:double", "t:f64*", "gv:f64*", "ng:int")
kdef("compute_xlylzl", "void", "s:f64*", "f:f64*", "p:f64*", "r:f64*", "dist:f64*", "xlylzl:f64*", "n:int")
kdef("quickorient", "void", "ubi:f64*", "bt:f64*")
# --- darkflat.c
kdef("uint16_to_float_darksub", "void", "img:f32*", "drk:f32*", "data:u16*", "npx:int")
kdef("uint16_to_float_darkflm", "void", "img:f32*", "drk:f32*", "flm:f32*", "data:u16*", "npx:int")
kdef("frelon_lines", "void", "img:f32*", "ns:int", "nf:int", "cut:float")
kdef("frelon_lines_sub", "void", "img:f32*", "drk:f32*", "ns:int", "nf:int", "cut:float")
kdef("array_mean_var_cut", "void", "img:f32*", "npx:int", "mean:f32*", "var:f32*", "n:int", "cut:float", "verbose:int")
kdef("array_mean_var_msk", "void", "img:f32*", "msk:u8*", "npx:int", "mean:f32*", "var:f32*", "n:int", "cut:float", "verbose:int")
kdef("array_stats", "void", "img:f32*", "npx:int", "minval:f32*", "maxval:f32*", "mean:f32*", "var:f32*")
kdef("array_histogram", "void", "img:f32*", "npx:int", "low:float", "high:float", "hist:i32*", "nhist:int")
kdef("reorder_u16_a32", "void", "data:u16*", "adr:u32*", "out:u16*", "N:int")
kdef("reorder_f32_a32", "void", "data:f32*", "adr:u32*", "out:f32*", "N:int")
kdef("reorderlut_u16_a32", "void", "data:u16*", "adr:u32*", "out:u16*", "N:int")
kdef("reorderlut_f32_a32", "void", "data:f32*", "adr:u32*", "out:f32*", "N:int")
kdef("reorder_u16_a32_a16", "void", "data:u16*", "adr0:u32*", "adr1:i16*", "out:u16*", "ns:int", "nf:int")
kdef("bgcalc", "void", "img:f32*", "bg:f32*", "msk:u8*", "ns:int", "nf:int", "gain:float", "sp:float", "st:float")


def check_against_pyf(repo=None):
    repo = repo or os.environ.get("VERIF_REPO", "/repo")
    fns = enginea.simbuild.pyf_functions(os.path.join(repo, "src", "_cImageD11.pyf"))
    problems = []
    for name, args in fns:
        if name not in K:
            problems.append("%s: wrapped in the pyf but not in /verif's kernel table" % name)
            continue
        mine = [a[0] for a in K[name]["args"]]
        if mine != args:
            problems.append("%s: argument list differs: pyf %s, table %s" % (name, args, mine))
    if problems:
        raise HarnessError("kernel table out of date with _cImageD11.pyf:\n  " + "\n  ".join(problems))
    return [n for n, _ in fns]


def to_array(v, ctype):
    return np.ascontiguousarray(np.array(v, dtype=DT[ctype]))


PAD = 256


def padded(a):
    """copy of a inside its own buffer with PAD guard bytes on both sides (never registered with the runtime)"""
    raw = np.full(a.nbytes + 2 * PAD + 64, 0xA5, np.uint8)
    off = PAD + (-(raw.ctypes.data + PAD)) % 64
    view = raw[off:off + a.nbytes].view(a.dtype).reshape(a.shape)
    view[...] = a
    return view, raw, off


def guards_intact(raw, off, nbytes):
    return bool((raw[:off] == 0xA5).all() and (raw[off + nbytes:] == 0xA5).all())


def _prep(name, vals, roles, gs, flip, gstyle, idbase=0):
    spec = K[name]
    arrays, call, regs, guards = {}, [], [], []
    for idx, (an, ct) in enumerate(spec["args"]):
        if ct.endswith("*"):
            role = roles[an]
            if role in ("in", "io"):
                a = to_array(vals[an], ct)
            else:
                a = enginea.garbage_array(tuple(vals[an]), DT[ct], gs + 17 * (idx + 1) + 1009 * idbase, gstyle)
                if flip:
                    a = enginea.complement(a)
            a, raw, off = padded(a)
            guards.append((an, raw, off, a.nbytes))
            arrays[an] = a
            regs.append((a, simlib.R if role == "in" else simlib.RW, idbase + idx + 1))
            call.append(("p", a))
        elif ct == "int":
            call.append(("i", int(vals[an])))
        elif ct == "float":
            call.append(("f", float(vals[an])))
        elif ct == "double":
            call.append(("d", float(vals[an])))
        else:
            raise ValueError(ct)
    return arrays, call, regs, guards


def run_kernel(sim, name, vals, roles, cfg, flip=False, gstyle=0, step_cap=None, pct_est=1000,
               track_conflicts=1, replay=None, strict=1):
    """
    vals[arg]  : scalar, or array content (roles in/io), or a shape list (roles out/work)
    roles[arg] : "in" | "io" | "out" | "work"   (pointer arguments only)
    returns (ret, arrays dict, stats)
    """
    spec = K[name]
    gs = cfg["garbage_seed"]
    arrays, call, regs, guards = _prep(name, vals, roles, gs, flip, gstyle)
    c2 = dict(cfg)
    if flip:
        c2["garbage_seed"] = gs ^ 0x5555555555555555  # different stack / heap garbage too
    enginea.apply_cfg(sim, c2, strict=strict, track_conflicts=track_conflicts, pct_est=pct_est,
                      step_cap=step_cap or 50000000, replay=replay)
    sim.begin_run()
    for a, perm, rid in regs:
        if a.nbytes:
            sim.register(a, perm, rid)
    ab, ret = sim.call(name, call, spec["ret"])
    st = sim.stats()
    st["guard_broken"] = [an for an, raw, off, nb in guards if not guards_intact(raw, off, nb)]
    return ret, arrays, st


def run_concurrent(sim, calls, cfg, gstyle=0, step_cap=None, pct_est=1000, replay=None, strict=1):
    """
    calls: [(name, vals, roles)] - each made by its own simulated caller thread (own arguments, own stack),
    interleaved by the seeded scheduler at every instrumented access.  returns ([(ret, arrays)], stats)
    """
    gs = cfg["garbage_seed"]
    preps = []
    for k, (name, vals, roles) in enumerate(calls):
        preps.append(_prep(name, vals, roles, gs, False, gstyle, idbase=100 * (k + 1)))
    c2 = dict(cfg)
    c2["team"] = len(calls)
    enginea.apply_cfg(sim, c2, strict=strict, track_conflicts=0, pct_est=pct_est, step_cap=step_cap or 50000000,
                      replay=replay)
    sim.begin_run()
    for arrays, call, regs, guards in preps:
        for a, perm, rid in regs:
            if a.nbytes:
                sim.register(a, perm, rid)
    ab, rets = sim.call_multi([(calls[k][0], preps[k][1], K[calls[k][0]]["ret"]) for k in range(len(calls))])
    st = sim.stats()
    st["guard_broken"] = [an for p in preps for an, raw, off, nb in p[3] if not guards_intact(raw, off, nb)]
    out = []
    for k in range(len(calls)):
        out.append((rets[k] if rets is not None else None, preps[k][0]))
    return out, st


def threadsafe_kernels(repo=None):
    """names of the wrapped functions the pyf declares 'threadsafe' (f2py releases the GIL around them)"""
    import re
    repo = repo or os.environ.get("VERIF_REPO", "/repo")
    txt = open(os.path.join(repo, "src", "_cImageD11.pyf")).read()
    out = []
    for m in re.finditer(r"^\s*(?:function|subroutine)\s+(\w+)\s*\(.*?^\s*end\s+(?:function|subroutine)", txt, re.M | re.S):
        if re.search(r"^\s*threadsafe\s*$", m.group(0), re.M):
            out.append(m.group(1))
    return out


def region_names(name):
    return {i + 1: a[0] for i, a in enumerate(K[name]["args"])}
