"""
Common batch runner for all checks.

A check module provides an object with

    id            property id, e.g. "C13"
    engine        "simomp" | "pysched" | "histsim"
    tiers         {"quick": {"runs": N, "budget_s": S}, "thorough": {...}}
    prepare(ctx)                  once in the parent, before workers are forked
    gen(run_seed, ctx) -> desc    JSON-able, explicit description of ONE simulated run
    execute(desc, ctx) -> result  {"digest": str, "sig": str, "nontrivial": bool,
                                   "viol": None | {"class": str, "key": str, "detail": str},
                                   "measures": {...numbers or {k: number}...}}
    minimise(desc, viol, ctx) -> desc   (optional) smaller desc with the same violation class
    describe(desc) -> small JSON-able summary for the evidence samples (optional)

Every run is a pure function of (VERIF_SEED, run index): run_seed = splitmix64(VERIF_SEED, index),
independent of the number of workers.  Exit codes: 0 held, 1 VIOLATION, 2 HARNESS-ERROR.
"""
from __future__ import print_function
import os, sys, json, time, select, signal, traceback, hashlib, tempfile, shutil, subprocess, argparse, faulthandler

VERIF = os.path.dirname(os.path.dirname(os.path.abspath(__file__)))
REPO = os.environ.get("VERIF_REPO", "/repo")
M64 = (1 << 64) - 1


def splitmix64(x):
    x = (x + 0x9E3779B97F4A7C15) & M64
    z = x
    z = ((z ^ (z >> 30)) * 0xBF58476D1CE4E5B9) & M64
    z = ((z ^ (z >> 27)) * 0x94D049BB133111EB) & M64
    return z ^ (z >> 31)


def run_seed(verif_seed, index):
    return splitmix64(splitmix64(verif_seed & M64) ^ ((index * 0xD1342543DE82EF95) & M64))


class HarnessError(Exception):
    pass


class Ctx(object):
    """what a check sees"""

    def __init__(self, check_id, tier, seed, jobs, scratch):
        self.check_id = check_id
        self.tier = tier
        self.seed = seed
        self.jobs = jobs
        self.scratch = scratch  # private directory, removed at exit
        self.sim = None  # Engine A handle when prepared
        self.extra = {}


def load_known_findings():
    p = os.path.join(VERIF, "known_findings.json")
    if not os.path.exists(p):
        return {"open": [], "fixed": []}
    return json.load(open(p))


def _merge_measures(acc, m):
    for k, v in m.items():
        if isinstance(v, dict):
            d = acc.setdefault(k, {})
            for kk, vv in v.items():
                d[str(kk)] = d.get(str(kk), 0) + vv
        elif isinstance(v, (int, float)):
            acc[k] = acc.get(k, 0) + v


def sut_frame(e):
    """the innermost repository frame below /verif's last frame in the traceback of e, or None when the exception
    comes from /verif's own code"""
    tb = traceback.extract_tb(e.__traceback__)
    repo = os.path.abspath(os.environ.get("VERIF_REPO", "/repo")) + os.sep
    last_verif = max([i for i, f in enumerate(tb) if os.path.abspath(f.filename).startswith(VERIF + os.sep)] or [-1])
    sut = [f for f in tb[last_verif + 1:] if os.path.abspath(f.filename).startswith(repo)]
    return sut[-1] if sut else None


def is_harness_exception(e):
    return sut_frame(e) is None


def safe_execute(check, desc, ctx):
    """check.execute, but an exception raised by the code under test (a frame below /verif's last frame lies in the
    repository) is that run's violation, not a fault of the harness"""
    try:
        return check.execute(desc, ctx)
    except Exception as e:
        tb = traceback.extract_tb(e.__traceback__)
        repo = os.path.abspath(os.environ.get("VERIF_REPO", "/repo")) + os.sep
        last_verif = max([i for i, f in enumerate(tb) if os.path.abspath(f.filename).startswith(VERIF + os.sep)] or [-1])
        sut = [f for f in tb[last_verif + 1:] if os.path.abspath(f.filename).startswith(repo)]
        if not sut:
            raise
        where = "%s:%s" % (os.path.basename(sut[-1].filename), sut[-1].name)
        return {"digest": "raised:%s:%s" % (type(e).__name__, where), "sig": "raised", "nontrivial": True, "measures": {},
                "viol": {"class": "raises", "key": "%s:raises:%s" % (desc.get("entry", check.id), where),
                         "detail": "the code under test raised %s: %s (in %s line %d) on a generated-valid call" %
                                   (type(e).__name__, str(e)[:200], where, sut[-1].lineno)}}


# ---------------------------------------------------------------------- workers
def _worker(check, ctx, indices, wfd, t_deadline, selftest_every):
    """runs in a forked child; writes one JSON line per event to wfd"""
    out = os.fdopen(wfd, "w", buffering=1)
    faulthandler.enable()
    try:
        for n, i in enumerate(indices):
            if time.time() > t_deadline:
                out.write(json.dumps({"t": "budget", "i": i}) + "\n")
                break
            out.write(json.dumps({"t": "start", "i": i}) + "\n")
            out.flush()
            rs = run_seed(ctx.seed, i)
            desc = check.gen(rs, ctx)
            res = safe_execute(check, desc, ctx)
            rec = {"t": "res", "i": i, "digest": res["digest"], "sig": res.get("sig", res["digest"]),
                   "nontrivial": bool(res.get("nontrivial", True)), "measures": res.get("measures", {}),
                   "viol": res.get("viol")}
            if res.get("viol") is not None:
                rec["desc"] = desc
            if i < 3 and hasattr(check, "describe"):
                rec["sample"] = check.describe(desc)
            if selftest_every and n % selftest_every == 0:
                # same seed twice in one process: identical event-log digest
                res2 = safe_execute(check, check.gen(rs, ctx), ctx)
                if res2["digest"] != res["digest"]:
                    rec["nondet"] = [res["digest"], res2["digest"]]
                rec["selftest"] = 1
            try:
                line = json.dumps(rec)
            except TypeError:
                def bad(o, path):
                    if isinstance(o, dict):
                        for k_, v_ in o.items():
                            if not isinstance(k_, (str, int, float, bool, type(None))):
                                return "%s: key %r" % (path, k_)
                            r_ = bad(v_, path + "/" + str(k_))
                            if r_:
                                return r_
                    elif isinstance(o, (list, tuple)):
                        for j_, v_ in enumerate(o):
                            r_ = bad(v_, path + "/%d" % j_)
                            if r_:
                                return r_
                    elif not isinstance(o, (str, int, float, bool, type(None))):
                        return "%s: value of type %s" % (path, type(o).__name__)
                    return None
                raise HarnessError("run %d: result is not JSON-able at %s" % (i, bad(rec, "")))
            out.write(line + "\n")
        out.write(json.dumps({"t": "done"}) + "\n")
        out.flush()
    except BaseException:
        out.write(json.dumps({"t": "exc", "tb": traceback.format_exc()}) + "\n")
        out.flush()
        os._exit(3)
    os._exit(0)


def _spawn(check, ctx, indices, t_deadline, selftest_every):
    r, w = os.pipe()
    sys.stdout.flush()
    sys.stderr.flush()
    pid = os.fork()
    if pid == 0:
        os.close(r)
        try:
            _worker(check, ctx, indices, w, t_deadline, selftest_every)
        finally:
            os._exit(4)
    os.close(w)
    return {"pid": pid, "fd": r, "buf": b"", "indices": list(indices), "started": None, "finished": set(),
            "done": False, "exc": None, "budget": False}


def run_batch(check, ctx, nruns, budget_s, selftest_every=0, hard_timeout_s=None, indices=None):
    """returns (results list, crashes list, hit_budget)"""
    t0 = time.time()
    t_deadline = t0 + budget_s
    hard = t0 + (hard_timeout_s or (budget_s * 4 + 120))
    jobs = max(1, min(ctx.jobs, nruns))
    allidx = list(range(nruns)) if indices is None else list(indices)
    queues = [allidx[w::jobs] for w in range(jobs)]
    workers = [_spawn(check, ctx, q, t_deadline, selftest_every) for q in queues if q]
    results, crashes = [], []
    hit_budget = False
    while workers:
        if time.time() > hard:
            for w in workers:
                try:
                    os.kill(w["pid"], signal.SIGKILL)
                except OSError:
                    pass
            # the runs that were in flight are looked at alone afterwards: one that does not finish there either, with a
            # limit hundreds of times what a run takes, is a hang of the code under test; otherwise the batch was just slow
            stuck = [w["started"] for w in workers if w.get("started") is not None and w["started"] not in w["finished"]]
            if not stuck:
                raise HarnessError("wall-clock limit exceeded (workers killed) before any run started")
            for i_ in stuck:
                crashes.append({"i": i_, "status": "stuck"})
            return results, crashes, True
        rl, _, _ = select.select([w["fd"] for w in workers], [], [], 1.0)
        for w in list(workers):
            if w["fd"] not in rl:
                continue
            chunk = os.read(w["fd"], 1 << 16)
            if chunk:
                w["buf"] += chunk
                while b"\n" in w["buf"]:
                    line, w["buf"] = w["buf"].split(b"\n", 1)
                    rec = json.loads(line.decode())
                    t = rec["t"]
                    if t == "start":
                        w["started"] = rec["i"]
                    elif t == "res":
                        w["finished"].add(rec["i"])
                        results.append(rec)
                    elif t == "done":
                        w["done"] = True
                    elif t == "budget":
                        w["budget"] = True
                        hit_budget = True
                    elif t == "exc":
                        w["exc"] = rec["tb"]
                continue
            # EOF
            os.close(w["fd"])
            _, status = os.waitpid(w["pid"], 0)
            workers.remove(w)
            if w["exc"]:
                raise HarnessError("worker raised:\n" + w["exc"])
            if w["done"] or w["budget"]:
                continue
            # died in the middle of run w["started"]
            i = w["started"]
            crashes.append({"i": i, "status": status})
            rest = [j for j in w["indices"] if j not in w["finished"] and j != i]
            if rest and time.time() < t_deadline:
                workers.append(_spawn(check, ctx, rest, t_deadline, selftest_every))
    return results, crashes, hit_budget


def run_single_isolated(check, ctx, desc, timeout_s=300, safe=True):
    """execute one descriptor in a forked child; returns ("res", result) | ("crash", status) | ("timeout", None)"""
    r, w = os.pipe()
    sys.stdout.flush()
    pid = os.fork()
    if pid == 0:
        os.close(r)
        try:
            res = safe_execute(check, desc, ctx) if safe else check.execute(desc, ctx)
            os.write(w, json.dumps(res).encode())
            os._exit(0)
        except BaseException:
            os.write(w, json.dumps({"exc": traceback.format_exc()}).encode())
            os._exit(3)
    os.close(w)
    buf = b""
    t_end = time.time() + timeout_s
    while True:
        rl, _, _ = select.select([r], [], [], 1.0)
        if rl:
            c = os.read(r, 1 << 16)
            if not c:
                break
            buf += c
        elif time.time() > t_end:
            os.kill(pid, signal.SIGKILL)
            os.waitpid(pid, 0)
            os.close(r)
            return "timeout", None
    os.close(r)
    _, status = os.waitpid(pid, 0)
    if buf:
        res = json.loads(buf.decode())
        if "exc" in res:
            raise HarnessError("isolated run raised:\n" + res["exc"])
        return "res", res
    return "crash", status


def minimise_isolated(check, ctx, desc, viol, timeout_s=600):
    """check.minimise in a forked child (the failing code is executed many times there and may corrupt memory); returns
    the minimised descriptor, or None when the child died, hung or raised"""
    class _Min(object):
        def execute(self, d, ctx_):
            return {"desc": check.minimise(d, viol, ctx_)}
    try:
        kind, res = run_single_isolated(_Min(), ctx, desc, timeout_s, safe=False)
    except HarnessError as e:
        print("note: minimiser failed, reporting the original\n" + str(e)[-2000:])
        return None
    if kind != "res":
        print("note: minimiser %s, reporting the original" % ("hung" if kind == "timeout" else "died (status %s)" % res))
        return None
    return res["desc"]


def run_sequence_isolated(check, ctx, verif_seed, indices, timeout_s=600):
    """execute the runs with these indices one after the other in ONE forked child (as a batch worker did) and return
    the result of the last one: for violations that need state left behind by earlier calls of the code under test"""
    class _Seq(object):
        def execute(self, desc, ctx_):
            res = None
            for i in indices:
                res = safe_execute(check, check.gen(run_seed(verif_seed, i), ctx_), ctx_)
            return res
    return run_single_isolated(_Seq(), ctx, None, timeout_s)


def status_text(status):
    if status == "stuck":
        return "stuck"
    if os.WIFSIGNALED(status):
        return "signal-%d" % os.WTERMSIG(status)
    code = os.WEXITSTATUS(status)
    names = {101: "heap-out-of-bounds", 102: "write-to-readonly", 103: "heap-use-after-free",
             104: "no-progress(step cap)", 105: "deadlock", 106: "exit-called", 107: "assert-failed",
             108: "bad-free", 109: "arena-exhausted"}
    return names.get(code, "exit-%d" % code)


# ---------------------------------------------------------------------- replay files
def write_replay(check_id, desc, viol, seed, index=None, sequence=None):
    d = os.path.join(VERIF, "replays", check_id)
    os.makedirs(d, exist_ok=True)
    blob = json.dumps({"property": check_id, "verif_seed": seed, "run_index": index, "violation": viol,
                       "desc": desc, "sequence": sequence}, sort_keys=True)
    name = "%s_%s.json" % (check_id, hashlib.sha1(blob.encode()).hexdigest()[:12])
    p = os.path.join(d, name)
    with open(p, "w") as f:
        f.write(blob)
    return p


# ---------------------------------------------------------------------- main
def main(check, argv=None):
    ap = argparse.ArgumentParser()
    ap.add_argument("--tier", default=os.environ.get("VERIF_TIER", "quick"))
    ap.add_argument("--seed", type=int, default=int(os.environ.get("VERIF_SEED", "0")))
    ap.add_argument("--jobs", type=int, default=int(os.environ.get("VERIF_JOBS", "16")))
    ap.add_argument("--runs", type=int, default=None)
    ap.add_argument("--budget", type=float, default=None)
    ap.add_argument("--replay", default=None)
    ap.add_argument("--digests", default=None, help="internal: print digests of the first N runs and exit")
    ap.add_argument("--no-selftest", action="store_true")
    ap.add_argument("--no-evidence", action="store_true")
    args = ap.parse_args(argv)
    if args.tier not in ("quick", "thorough"):
        args.tier = "quick"
    t0 = time.time()
    scratch = tempfile.mkdtemp(prefix="verif_%s_" % check.id)
    ctx = Ctx(check.id, args.tier, args.seed, args.jobs, scratch)
    rc = 2
    try:
        try:
            rc = _main(check, ctx, args, t0)
        except HarnessError as e:
            print("HARNESS-ERROR property=%s %s" % (check.id, e))
            rc = 2
        except Exception:
            print("HARNESS-ERROR property=%s unexpected exception\n%s" % (check.id, traceback.format_exc()))
            rc = 2
    finally:
        shutil.rmtree(scratch, ignore_errors=True)
    sys.stdout.flush()
    return rc


def _main(check, ctx, args, t0):
    print("check %s tier=%s VERIF_SEED=%d jobs=%d" % (check.id, ctx.tier, ctx.seed, ctx.jobs))
    sys.stdout.flush()
    check.prepare(ctx)
    t_prep = time.time() - t0

    # ---- replay mode
    if args.replay:
        rp = json.load(open(args.replay))
        if rp.get("sequence"):
            kind, res = run_sequence_isolated(check, ctx, rp["sequence"]["verif_seed"], rp["sequence"]["indices"], timeout_s=900)
        else:
            kind, res = run_single_isolated(check, ctx, rp["desc"])
        if kind == "res":
            v = res.get("viol")
            if v is not None:
                print("replay reproduces: class=%s key=%s %s" % (v["class"], v.get("key"), v.get("detail", "")))
                print("VIOLATION property=%s replay=%s" % (check.id, args.replay))
                return 1
            print("replay did not violate (digest %s)" % res["digest"])
            return 0
        if kind == "crash":
            print("replay reproduces: class=crash:%s" % status_text(res))
            print("VIOLATION property=%s replay=%s" % (check.id, args.replay))
            return 1
        if (rp.get("violation") or {}).get("class") == "hang":
            print("replay reproduces: class=hang (no result within the time limit)")
            print("VIOLATION property=%s replay=%s" % (check.id, args.replay))
            return 1
        raise HarnessError("replay timed out")

    # ---- internal: digests of the first N runs (fresh-interpreter determinism self-test)
    if args.digests:
        n = int(args.digests)
        results, crashes, _ = run_batch(check, ctx, n, 600)
        dg = {str(r["i"]): r["digest"] for r in results}
        for c in crashes:  # a run that kills its worker does so in every interpreter: that is its "digest"
            dg[str(c["i"])] = "CRASH:" + status_text(c["status"])
        print("DIGESTS " + json.dumps(dg, sort_keys=True))
        return 0

    tier = dict(check.tiers[ctx.tier])
    nruns = args.runs or tier["runs"]
    budget = args.budget or tier["budget_s"]
    selftest_every = 0 if args.no_selftest else tier.get("selftest_every", 25)
    results, crashes, hit_budget = run_batch(check, ctx, nruns, budget, selftest_every)
    t_batch = time.time() - t0 - t_prep

    # ---- determinism
    nondet = [r for r in results if r.get("nondet")]
    if nondet and not any(r.get("viol") for r in results):
        raise HarnessError("same seed twice gave different digests for run indices %s" % [r["i"] for r in nondet][:10])
    if nondet:
        # the system under test carries state from one call to the next (each run is executed twice in a row by the
        # self-test); the runs below report what that breaks
        print("note: %d runs gave a different digest when executed a second time in the same process "
              "(state leaking between calls of the code under test)" % len(nondet))
    n_self = sum(1 for r in results if r.get("selftest"))
    fresh_checked = 0
    if not args.no_selftest and tier.get("fresh_selftest", 8) and not nondet:
        k = min(tier.get("fresh_selftest", 8), nruns)
        env = dict(os.environ)
        env["PYTHONHASHSEED"] = "12345"
        env["VERIF_SEED"] = str(ctx.seed)
        cmd = [sys.executable, sys.modules[check.__module__].__file__, "--digests", str(k), "--jobs", "3",
               "--tier", ctx.tier, "--seed", str(ctx.seed)]
        p = subprocess.run(cmd, env=env, stdout=subprocess.PIPE, stderr=subprocess.STDOUT, timeout=900)
        line = [l for l in p.stdout.decode(errors="replace").splitlines() if l.startswith("DIGESTS ")]
        if p.returncode != 0 or not line:
            raise HarnessError("fresh-interpreter self-test failed to run:\n" + p.stdout.decode(errors="replace")[-3000:])
        other = json.loads(line[0][8:])
        mine = {str(r["i"]): r["digest"] for r in results if r["i"] < k}
        for c in crashes:
            if c["i"] is not None and c["i"] < k:
                mine[str(c["i"])] = "CRASH:" + status_text(c["status"])
        for i, dg in other.items():
            if i in mine and mine[i] != dg:
                raise HarnessError("run %s: digest differs in a fresh interpreter (PYTHONHASHSEED, 3 workers): %s vs %s"
                                   % (i, mine[i], dg))
            if i in mine:
                fresh_checked += 1

    # ---- violations
    known = load_known_findings()
    open_keys = {(f["property"], f["key"]): f for f in known.get("open", [])}
    viols = [r for r in results if r.get("viol")]
    reported = []
    known_hit = {}
    new_keys = {}
    for r in sorted(viols, key=lambda r: r["i"]):
        v = r["viol"]
        key = (check.id, v.get("key", v["class"]))
        if key in open_keys:
            known_hit.setdefault(key, []).append(r)
        else:
            new_keys.setdefault(key, []).append(r)
    # crashed runs: confirm in isolation, then report
    flaky_crashes = []
    slow_batch = []
    confirmed_kinds = {}
    for c in sorted(crashes, key=lambda c: (c["i"] is None, c["i"])):
        i = c["i"]
        kind_txt = status_text(c["status"])
        if i is not None and kind_txt in confirmed_kinds:
            # same way of dying as a run already confirmed in isolation: count it with that one
            confirmed_kinds[kind_txt].append({"i": i})
            continue
        if i is None:
            raise HarnessError("a worker died before starting any run (status %s)" % c["status"])
        desc = check.gen(run_seed(ctx.seed, i), ctx)
        kind, res = run_single_isolated(check, ctx, desc)
        if kind == "crash":
            v = {"class": "crash:" + status_text(res), "key": "crash:" + status_text(res) + ":" + str(desc.get("entry", "")),
                 "detail": "worker process died inside the run (reproduced in isolation)"}
            key = (check.id, v["key"])
            rec = {"i": i, "viol": v, "desc": desc}
            if key in open_keys:
                confirmed_kinds[kind_txt] = known_hit.setdefault(key, [])
            else:
                confirmed_kinds[kind_txt] = new_keys.setdefault(key, [])
            confirmed_kinds[kind_txt].append(rec)
        elif kind == "timeout":
            v = {"class": "hang", "key": "hang:" + str(desc.get("entry", "")),
                 "detail": "the run did not finish within the wall-clock limit of the batch, nor within 300 s when repeated alone "
                           "(no progress: a loop of the code under test does not terminate on this input)"}
            key = (check.id, v["key"])
            rec = {"i": i, "viol": v, "desc": desc}
            (known_hit if key in open_keys else new_keys).setdefault(key, []).append(rec)
            confirmed_kinds[kind_txt] = (known_hit if key in open_keys else new_keys)[key]
        elif c["status"] == "stuck" and run_sequence_isolated(
                check, ctx, ctx.seed, [j for j in range(i % max(1, min(ctx.jobs, nruns)), i + 1, max(1, min(ctx.jobs, nruns)))],
                timeout_s=900)[0] == "timeout":
            # alone it finishes, after the runs its worker had executed before it it does not: state kept by the code under test
            v = {"class": "hang", "key": "hang:" + str(desc.get("entry", "")),
                 "detail": "the run does not finish (900 s) when it follows the runs its worker executed before it, although it "
                           "finishes alone: state kept between calls of the code under test leads to a loop that does not terminate"}
            key = (check.id, v["key"])
            rec = {"i": i, "viol": v, "desc": desc,
                   "sequence": {"verif_seed": ctx.seed, "indices": [j for j in range(i % max(1, min(ctx.jobs, nruns)), i + 1, max(1, min(ctx.jobs, nruns)))]}}
            (known_hit if key in open_keys else new_keys).setdefault(key, []).append(rec)
        elif c["status"] == "stuck":
            slow_batch.append(i)
        else:
            flaky_crashes.append((i, c["status"]))
    for key, rs in known_hit.items():
        print("KNOWN-FINDING: property=%s %s (%d runs; e.g. run index %d)" %
              (check.id, open_keys[key].get("what", key[1]), len(rs), rs[0]["i"]))
    rc = 0
    unreproducible = []
    jobs_used = max(1, min(ctx.jobs, nruns))
    for key, rs in list(new_keys.items()):
        r = rs[0]
        desc, v = r["desc"], r["viol"]
        seq = r.get("sequence")
        if not v["class"].startswith(("crash", "hang")):
            kind, res = run_single_isolated(check, ctx, desc)
            if not (kind == "res" and res.get("viol") and res["viol"]["class"] == v["class"]):
                # not a function of this run alone: replay the runs its worker had executed before it, in order
                idxs = [j for j in range(r["i"] % jobs_used, r["i"] + 1, jobs_used)]
                kind, res = run_sequence_isolated(check, ctx, ctx.seed, idxs)
                if kind == "res" and res and res.get("viol") and res["viol"]["class"] == v["class"]:
                    seq = {"verif_seed": ctx.seed, "indices": idxs}
                    print("note: violation %s needs the %d runs its worker executed before it (state kept between calls "
                          "of the code under test); the replay file holds that sequence" % (v["class"], len(idxs) - 1))
                else:
                    unreproducible.append((key, r["i"], v))
                    del new_keys[key]
                    continue
        if seq is not None:
            path = write_replay(check.id, desc, v, ctx.seed, r["i"], sequence=seq)
            print("violation class=%s key=%s runs=%d first_index=%d detail=%s" %
                  (v["class"], v.get("key"), len(rs), r["i"], v.get("detail", "")))
            print("VIOLATION property=%s replay=%s" % (check.id, path))
            reported.append(path)
            rc = 1
            continue
        if hasattr(check, "minimise") and not v["class"].startswith(("crash", "hang")):
            desc2 = minimise_isolated(check, ctx, desc, v)
            if desc2 is not None:
                kind, res = run_single_isolated(check, ctx, desc2)
                if kind == "res" and res.get("viol") and res["viol"]["class"] == v["class"]:
                    desc, v = desc2, res["viol"]
                else:
                    print("note: minimised descriptor did not reproduce in a fresh process; reporting the original")
        path = write_replay(check.id, desc, v, ctx.seed, r["i"])
        print("violation class=%s key=%s runs=%d first_index=%d detail=%s" %
              (v["class"], v.get("key"), len(rs), r["i"], v.get("detail", "")))
        print("VIOLATION property=%s replay=%s" % (check.id, path))
        reported.append(path)
        rc = 1

    if slow_batch:
        if rc == 0:
            raise HarnessError("wall-clock limit exceeded (workers killed) while run(s) %s were in flight; they complete when "
                               "repeated alone and after the runs before them: the batch was too slow for its limit" % slow_batch[:5])
        print("note: the batch hit its wall-clock limit while run(s) %s were in flight; they complete when repeated alone (see the "
              "violations above for what the code under test does)" % slow_batch[:5])
    if flaky_crashes:
        if rc == 0:
            raise HarnessError("run(s) %s killed their worker but complete in isolation: not deterministic" % flaky_crashes[:5])
        print("note: %d run(s) killed their worker process but completed when repeated alone (memory corruption by the code "
              "under test is the likely cause; see the violations above)" % len(flaky_crashes))
    if unreproducible and rc == 0:
        raise HarnessError("violations that reproduce neither alone nor after the runs their worker executed before them: %s"
                           % [(k[1], i) for k, i, v in unreproducible][:5])
    for k, i, v in unreproducible:
        print("note: a violation of class %s (run index %d) did not reproduce in isolation and is not reported" % (v["class"], i))

    # ---- evidence
    wall = time.time() - t0
    measures = {}
    for r in results:
        _merge_measures(measures, r.get("measures", {}))
    sigs = set(r["sig"] for r in results if r.get("nontrivial"))
    samples = [r["sample"] for r in sorted(results, key=lambda r: r["i"]) if "sample" in r][:3]
    if not samples:
        samples = [{"run_index": r["i"], "digest": r["digest"]} for r in results[:3]]
    ev = {
        "property_id": check.id,
        "tier": ctx.tier,
        "seed": ctx.seed,
        "level": "exploration",
        "coverage": {
            "evaluations": len(results),
            "distinct_nontrivial": len(sigs),
            "rule": getattr(check, "rule", ""),
            "samples": samples,
            "runs_requested": nruns,
            "stopped_on_budget": bool(hit_budget),
            "runs_per_hour": int(len(results) / max(t_batch, 1e-6) * 3600),
            "measures": measures,
            "selftest_same_seed_twice": n_self,
            "selftest_fresh_interpreter_runs": fresh_checked,
            "crashed_runs": len(crashes),
            "known_findings_hit": {k[1]: len(v) for k, v in known_hit.items()},
            "components": getattr(check, "components", {}),
            "engine": check.engine,
            "prepare_s": round(t_prep, 2),
        },
        "assumptions": list(getattr(check, "assumptions", [])),
        "wall_s": round(wall, 2),
        "violations": len(reported),
    }
    # simulated time and faults actually fired (not merely configured), by the check's own naming
    tkeys = getattr(check, "time_keys", {"steps": "scheduler steps (one per instrumented access / pre-emption point)"})
    ev["coverage"]["simulated_time"] = {k: {"total": measures.get(k, 0), "unit": u} for k, u in tkeys.items()}
    fkeys = getattr(check, "fault_keys", [])
    ev["coverage"]["faults_fired"] = {k: measures.get(k, 0) for k in fkeys}
    if hasattr(check, "extra_evidence"):
        ev["coverage"].update(check.extra_evidence(results, ctx))
    if not args.no_evidence:
        os.makedirs(os.path.join(VERIF, "evidence"), exist_ok=True)
        with open(os.path.join(VERIF, "evidence", check.id + ".json"), "w") as f:
            json.dump(ev, f, indent=1, sort_keys=True)
    print("%s: %d runs (%d distinct non-trivial), %d violations, %d known findings, %.1fs, %d runs/h" %
          (check.id, len(results), len(sigs), len(reported), len(known_hit), wall, ev["coverage"]["runs_per_hour"]))
    if len(results) == 0:
        raise HarnessError("no run completed")
    return rc
