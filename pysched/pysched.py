"""
Engine B - pysched: a deterministic scheduler for Python threads.

Simulated threads are real OS threads, but exactly one runs at any time: every simulated thread owns a baton
(an Event); the scheduler releases one baton at a time.  Pre-emption points are (i) every patched primitive
(queue put/get, sleep, thread start/join, pool map, prange chunk boundaries) and (ii) sys.settrace *line* events
inside the files under test.  Time is virtual: when no thread is runnable the clock jumps to the next sleeper.
One integer seed decides every choice; the sequence of choices is recorded so that a run can be replayed and
minimised.  The trace function never draws from the PRNG and never reads a real clock.
"""
from __future__ import print_function
import sys, threading, heapq, random, hashlib
import queue as _queue

_RealThread = threading.Thread
_RealEvent = threading.Event


class Deadlock(Exception):
    pass


class StepCap(Exception):
    pass


class SimKilled(BaseException):
    """raised inside abandoned simulated threads when a run is torn down"""


class SThread(object):
    def __init__(self, sched, tid, name, fn):
        self.sched, self.tid, self.name, self.fn = sched, tid, name, fn
        self.baton = _RealEvent()
        self.state = "new"  # new | run | blocked | sleep | done
        self.wake = None
        self.blocked_on = None
        self.exc = None
        self.result = None
        self.prio = 0
        self.real = None
        self.steps = 0


class Sched(object):
    def __init__(self, seed, strategy="random", p_inv=8, quantum=3, pct_d=2, pct_est=2000, step_cap=2000000,
                 time_cap=1e7, trace_files=(), replay=None, opcodes=False, eager_sleep=False):
        self.rnd = random.Random(seed)
        self.strategy = strategy
        self.p_inv, self.quantum, self.pct_d, self.pct_est = p_inv, quantum, pct_d, pct_est
        self.step_cap, self.time_cap = step_cap, time_cap
        self.trace_files = set(trace_files)
        # eager_sleep: a sleeping thread may be resumed at any scheduling point, the clock jumping to its wake-up time
        # (real time passes while other threads compute; without it timers only fire when everybody else is idle)
        self.eager_sleep = eager_sleep
        self.opcodes = opcodes  # pre-empt between bytecodes (splits `a[i] += x`) instead of between lines
        self.threads = []
        self.cur = None
        self.clock = 0.0
        self.steps = 0
        self.switches = 0
        self.choices = []       # [(step, tid)] every context switch
        self.events = []        # recorded history of primitive events (for oracles)
        self.h = hashlib.sha1()
        self.replay = list(replay) if replay is not None else None
        self.replay_i = 0
        self.until = 1
        self.killed = False
        self.failure = None
        self.pct_changes = sorted(self.rnd.randrange(1, max(2, pct_est)) for _ in range(pct_d)) if strategy == "pct" else []
        self.n_preempt_points = 0
        self._draw_until()

    # ---------------------------------------------------------------- bookkeeping
    def log(self, *ev):
        self.events.append(ev)
        self.h.update(repr(ev).encode())

    def digest(self):
        self.h.update(repr(self.choices[-50:]).encode())
        return self.h.hexdigest()[:16]

    def sched_sig(self):
        return hashlib.sha1(repr(self.choices).encode()).hexdigest()[:12]

    def _draw_until(self):
        if self.replay is not None:
            self.until = 1
        elif self.strategy == "random":
            g = 1
            while self.p_inv > 1 and self.rnd.randrange(self.p_inv) != 0 and g < 100000:
                g += 1
            self.until = g
        elif self.strategy == "rr":
            self.until = self.quantum
        elif self.strategy == "pct":
            self.until = 1
        else:  # rtc
            self.until = 1 << 60

    def runnable(self):
        if self.eager_sleep:
            # a sleeper may be resumed early once somebody else has made progress since it went to sleep (otherwise a
            # polling loop of high priority would spin the clock forward without letting anybody work)
            return [t for t in self.threads if t.state == "run" or
                    (t.state == "sleep" and t.wake <= self.time_cap and self.steps > getattr(t, "sleep_step", 0) + 20)]
        return [t for t in self.threads if t.state == "run"]

    def _wake_if_sleeping(self, t):
        if t.state == "sleep":
            self.clock = max(self.clock, t.wake)
            for o in self.threads:
                if o.state == "sleep" and o.wake <= self.clock:
                    o.state = "run"
                    o.timed_out = True

    # ---------------------------------------------------------------- choosing
    def _choose(self, blocked):
        """who runs next; None = nobody can"""
        cand = self.runnable()
        if not cand:
            return None
        if self.replay is not None:
            while self.replay_i < len(self.replay) and self.replay[self.replay_i][0] < self.steps:
                self.replay_i += 1
            if self.replay_i < len(self.replay) and self.replay[self.replay_i][0] == self.steps:
                want = self.replay[self.replay_i][1]
                self.replay_i += 1
                for t in cand:
                    if t.tid == want:
                        return t
            if not blocked and self.cur in cand:
                return self.cur
            return cand[0]
        if self.strategy == "random":
            return cand[self.rnd.randrange(len(cand))]
        if self.strategy in ("pct", "rtc"):
            return max(cand, key=lambda t: (t.prio, -t.tid))
        # rr
        ids = sorted(t.tid for t in cand)
        nxt = [i for i in ids if i > (self.cur.tid if self.cur else -1)]
        want = nxt[0] if nxt else ids[0]
        return [t for t in cand if t.tid == want][0]

    def _advance_clock(self):
        sl = [t for t in self.threads if t.state == "sleep"]
        if not sl:
            return False
        w = min(t.wake for t in sl)
        if w > self.time_cap:
            return False
        self.clock = max(self.clock, w)
        for t in sl:
            if t.wake <= self.clock:
                t.state = "run"
                t.timed_out = True
        return True

    def _switch_to(self, nxt):
        me = self.cur
        self._wake_if_sleeping(nxt)
        if nxt is me:
            return
        self.switches += 1
        self.choices.append((self.steps, nxt.tid))
        self.cur = nxt
        nxt.baton.set()
        if me is not None and me.state != "done":
            me.baton.wait()
            me.baton.clear()
            if self.killed:
                raise SimKilled()

    def _dispatch(self, blocked):
        """called by the running thread: pick the next thread (maybe itself) and hand over"""
        nxt = self._choose(blocked)
        while nxt is None:
            if not self._advance_clock():
                alive = [t for t in self.threads if t.state not in ("done",)]
                if not alive:
                    return
                self.failure = Deadlock("no runnable thread; blocked: %s" %
                                        [(t.name, t.state, str(t.blocked_on)) for t in alive])
                self._abort()
                raise SimKilled()
            nxt = self._choose(blocked)
        self._switch_to(nxt)

    def _abort(self):
        """tear the run down: wake the main thread (tid 0) with the failure recorded"""
        self.killed = True
        main = self.threads[0]
        if self.cur is not main:
            self.cur = main
            main.baton.set()

    # ---------------------------------------------------------------- points
    def point(self, why="line"):
        """a pre-emption point in the running thread"""
        if self.killed:
            raise SimKilled()
        self.steps += 1
        self.cur.steps += 1
        self.n_preempt_points += 1
        if self.steps > self.step_cap:
            self.failure = StepCap("no progress within %d steps" % self.step_cap)
            self._abort()
            raise SimKilled()
        self.until -= 1
        if self.strategy == "pct" and self.replay is None:
            if self.pct_changes and self.steps >= self.pct_changes[0]:
                self.pct_changes.pop(0)
                self.cur.prio = -len(self.pct_changes) - 1
                self._dispatch(False)
            return
        if self.until <= 0:
            self._draw_until()
            self._dispatch(False)

    def block(self, on):
        t = self.cur
        t.state = "blocked"
        t.blocked_on = on
        self._dispatch(True)

    def sleep_until(self, when, on="sleep"):
        t = self.cur
        t.state = "sleep"
        t.wake = when
        t.blocked_on = on
        t.timed_out = False
        t.sleep_step = self.steps
        self._dispatch(True)
        return getattr(t, "timed_out", False)

    def wake(self, pred):
        for t in self.threads:
            if t.state in ("blocked", "sleep") and pred(t):
                t.state = "run"
                t.timed_out = False

    # ---------------------------------------------------------------- threads
    def spawn(self, fn, name=None):
        tid = len(self.threads)
        t = SThread(self, tid, name or ("T%d" % tid), fn)
        if self.strategy in ("pct", "rtc"):
            t.prio = self.rnd.random()
        self.threads.append(t)
        if tid == 0:
            return t

        def boot():
            t.baton.wait()
            t.baton.clear()
            if self.killed:
                return
            sys.settrace(self._trace)
            try:
                t.result = fn()
            except SimKilled:
                return
            except BaseException as e:  # noqa
                t.exc = e
                self.log("thread-exception", t.name, type(e).__name__, str(e)[:100])
            finally:
                sys.settrace(None)
            self._finish(t)

        t.real = _RealThread(target=boot, name="sim-" + t.name)
        t.real.daemon = True
        t.state = "run"
        t.real.start()
        self.log("spawn", t.name)
        return t

    def _finish(self, t):
        t.state = "done"
        self.log("done", t.name)
        self.wake(lambda o: o.blocked_on == ("join", t.tid))
        if self.killed:
            return
        nxt = self._choose(True)
        while nxt is None:
            if not self._advance_clock():
                alive = [x for x in self.threads if x.state != "done"]
                if alive:
                    self.failure = Deadlock("no runnable thread; blocked: %s" %
                                            [(x.name, x.state, str(x.blocked_on)) for x in alive])
                    self._abort()
                return
            nxt = self._choose(True)
        self._wake_if_sleeping(nxt)
        self.switches += 1
        self.choices.append((self.steps, nxt.tid))
        self.cur = nxt
        nxt.baton.set()

    def join(self, t, timeout=None):
        self.point("join")
        if t.state == "done":
            return True
        if timeout is None:
            while t.state != "done":
                self.block(("join", t.tid))
            return True
        self.sleep_until(self.clock + timeout, ("join", t.tid))
        return t.state == "done"

    # ---------------------------------------------------------------- tracing
    def _trace(self, frame, event, arg):
        if frame.f_code.co_filename in self.trace_files:
            if self.opcodes:
                frame.f_trace_opcodes = True
            return self._ltrace
        return None

    def _ltrace(self, frame, event, arg):
        if event == ("opcode" if self.opcodes else "line") and not self.killed:
            me = threading.current_thread()
            if self.cur is not None and (self.cur.real is me or (self.cur.tid == 0 and self.cur.real is None)):
                self.point("line")
        return self._ltrace

    # ---------------------------------------------------------------- run
    def run(self, main_fn):
        """runs main_fn as simulated thread 0 on the calling thread; returns its result.
        raises Deadlock / StepCap when the run fails to make progress"""
        main = self.spawn(main_fn, "main")
        main.state = "run"
        self.cur = main
        old = sys.gettrace()
        sys.settrace(self._trace)
        res = None
        try:
            try:
                res = main_fn()
            except SimKilled:
                pass
            # implicit join of everything that is still alive
            if not self.killed:
                main.state = "run"
                while any(t.state != "done" for t in self.threads[1:]):
                    if self.killed:
                        break
                    try:
                        others = [t for t in self.threads[1:] if t.state != "done"]
                        self.block(("join", others[0].tid))
                    except SimKilled:
                        break
        finally:
            sys.settrace(old)
            main.state = "done"
            self.killed = True
            for t in self.threads[1:]:
                t.baton.set()  # release abandoned threads so that they exit
            for t in self.threads[1:]:
                if t.real is not None:
                    t.real.join(2.0)
        if self.failure is not None:
            raise self.failure
        return res


# ---------------------------------------------------------------------- primitives built on the scheduler
class SimQueue(object):
    """queue.Queue semantics (bounded, blocking put/get, timeouts in virtual time)"""
    _n = 0

    def __init__(self, sched, maxsize=0, name=None):
        self.s = sched
        self.maxsize = maxsize
        self.items = []
        SimQueue._n += 1
        self.name = name or "q%d" % len([e for e in sched.events if e[0] == "queue"])
        sched.log("queue", self.name, maxsize)

    def qsize(self):
        return len(self.items)

    def empty(self):
        return not self.items

    def full(self):
        return 0 < self.maxsize <= len(self.items)

    def put(self, item, block=True, timeout=None):
        s = self.s
        s.point("put")
        if self.full():
            if not block:
                raise _queue.Full
            if timeout is None:
                while self.full():
                    s.block(("put", id(self)))
            else:
                end = s.clock + timeout
                while self.full():
                    if s.sleep_until(end, ("put", id(self))) and self.full():
                        raise _queue.Full
        self.items.append(item)
        self.unfinished = getattr(self, "unfinished", 0) + 1
        s.log("put", self.name, s.cur.name, _brief(item))
        s.wake(lambda t: t.blocked_on == ("get", id(self)))

    def get(self, block=True, timeout=None):
        s = self.s
        s.point("get")
        if not self.items:
            if not block:
                raise _queue.Empty
            if timeout is None:
                while not self.items:
                    s.block(("get", id(self)))
            else:
                end = s.clock + timeout
                while not self.items:
                    if s.sleep_until(end, ("get", id(self))) and not self.items:
                        raise _queue.Empty
        item = self.items.pop(0)
        s.log("get", self.name, s.cur.name, _brief(item))
        s.wake(lambda t: t.blocked_on == ("put", id(self)))
        return item

    def task_done(self):
        self.s.point("task_done")
        self.unfinished = getattr(self, "unfinished", 0) - 1
        if self.unfinished < 0:
            raise ValueError("task_done() called too many times")
        if self.unfinished == 0:
            self.s.wake(lambda t: t.blocked_on == ("qjoin", id(self)))

    def join(self):
        self.s.point("qjoin")
        while getattr(self, "unfinished", 0) > 0:
            self.s.block(("qjoin", id(self)))

    def put_nowait(self, item):
        return self.put(item, block=False)

    def get_nowait(self):
        return self.get(block=False)


def _brief(item):
    try:
        if isinstance(item, tuple) and len(item) == 2:
            return str(item[0])
        return type(item).__name__
    except Exception:
        return "?"


class SimTime(object):
    """stands in for the time module inside a module under test"""

    def __init__(self, sched, real_time):
        self.s = sched
        self._real = real_time

    def time(self):
        return self.s.clock

    def sleep(self, d):
        self.s.point("sleep")
        self.s.sleep_until(self.s.clock + max(0.0, d))

    def asctime(self, *a):
        return "Thu Jan  1 00:00:00 1970"

    def __getattr__(self, n):
        return getattr(self._real, n)


class SimFuture(object):
    def __init__(self, sched):
        self.s = sched
        self._done = False
        self._res = None
        self._exc = None

    def done(self):
        self.s.point("future-done?")
        return self._done

    def result(self, timeout=None):
        self.s.point("future-result")
        while not self._done:
            self.s.block(("future", id(self)))
        if self._exc is not None:
            raise self._exc
        return self._res

    def exception(self, timeout=None):
        self.s.point("future-exception")
        while not self._done:
            self.s.block(("future", id(self)))
        return self._exc

    def _set(self, res, exc):
        self._res, self._exc, self._done = res, exc, True
        self.s.wake(lambda t: t.blocked_on == ("future", id(self)) or t.blocked_on == "any-future")


def sim_as_completed(fs, timeout=None):
    """concurrent.futures.as_completed for SimFutures: yields them in the order the schedule completes them"""
    fs = list(fs)
    if not fs:
        return
    s = fs[0].s
    pending = list(fs)
    while pending:
        s.point("as_completed")
        ready = [f for f in pending if f._done]
        if not ready:
            s.block("any-future")
            continue
        for f in ready:
            pending.remove(f)
            yield f


def sim_wait(fs, timeout=None, return_when="ALL_COMPLETED"):
    fs = list(fs)
    for f in fs:
        f.exception()
    return set(fs), set()


class SimExecutor(object):
    """concurrent.futures.ThreadPoolExecutor for the code under test: up to max_workers simulated worker threads pull
    submitted jobs in submission order; map() returns results in submission order (as the real one does)"""

    def __init__(self, sched, max_workers=None):
        self.s = sched
        self.n = max_workers or 4
        self.jobs = []          # (future, fn, args, kwargs), FIFO
        self.workers = []
        self.closed = False
        self.njobs = 0

    def __enter__(self):
        return self

    def __exit__(self, *a):
        self.shutdown(wait=True)
        return False

    def _worker(self):
        s = self.s
        while True:
            s.point("take-job")
            while not self.jobs:
                if self.closed:
                    return
                s.block(("pool-idle", id(self)))
            fut, fn, args, kwargs, k = self.jobs.pop(0)
            s.log("job-start", s.cur.name, k)
            try:
                res, exc = fn(*args, **kwargs), None
            except SimKilled:
                raise
            except Exception as e:  # noqa
                res, exc = None, e
            s.log("job-done", s.cur.name, k)
            fut._set(res, exc)

    def submit(self, fn, *args, **kwargs):
        s = self.s
        s.point("submit")
        if self.closed:
            raise RuntimeError("cannot schedule new futures after shutdown")
        fut = SimFuture(s)
        self.jobs.append((fut, fn, args, kwargs, self.njobs))
        self.njobs += 1
        if len(self.workers) < self.n:
            self.workers.append(s.spawn(self._worker, "pool-%d" % len(self.workers)))
        s.wake(lambda t: t.blocked_on == ("pool-idle", id(self)))
        return fut

    def map(self, fn, *iterables, **kw):
        futs = [self.submit(fn, *args) for args in zip(*iterables)]

        def gen():
            for f in futs:
                yield f.result()
        return gen()

    def shutdown(self, wait=True, **kw):
        self.closed = True
        self.s.wake(lambda t: t.blocked_on == ("pool-idle", id(self)))
        if wait:
            for w in self.workers:
                self.s.join(w)
