#!/bin/sh
# offline set-up: nothing is installed; verify the toolchain the checks need and do a smoke build
set -e
cd "$(dirname "$0")"
/venv/bin/python -c "import numpy, scipy, numba, h5py, hypothesis" 
command -v gcc objcopy nm >/dev/null
d=$(mktemp -d /tmp/verif_setup_XXXXXX)
/venv/bin/python simomp/build.py "$d" >/dev/null
rm -rf "$d"
echo "verif setup ok"
