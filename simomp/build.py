"""
Build the instrumented _cImageD11 extension from /repo/src as it is NOW, linked
against the simulated OpenMP runtime (simomp.c) instead of libgomp/libtsan.

One artefact: <outdir>/_cImageD11<EXT_SUFFIX>.  It is at the same time
  * the f2py extension module that ImageD11's Python code imports ("lenient"
    mode: scheduling, allocator and garbage seams under unchanged Python code)
  * a ctypes library exporting sim_* (runtime control), simsym_lookup (addresses
    of every kernel incl. the hidden ones) for "strict" kernel-level calls.
"""
from __future__ import print_function
import os, sys, subprocess, sysconfig, re, shutil, tempfile, time
from concurrent.futures import ThreadPoolExecutor

HERE = os.path.dirname(os.path.abspath(__file__))
REPO = os.environ.get("VERIF_REPO", "/repo")
KERNELS = ["blobs", "cdiffraction", "cimaged11utils", "closest",
           "connectedpixels", "darkflat", "localmaxlabel", "sparse_image", "splat"]
# flags setup.py ends up with on linux + instrumentation pass
KFLAGS = ["-O2", "-fno-strict-overflow", "-DNDEBUG", "-fPIC", "-fopenmp",
          "-fsanitize=thread", "-g0"]
RENAMES = ["malloc", "calloc", "realloc", "free", "memset", "memcpy", "memmove",
           "exit", "__assert_fail", "printf", "puts", "putchar"]


class BuildError(Exception):
    pass


def run(cmd, cwd=None):
    p = subprocess.run(cmd, cwd=cwd, stdout=subprocess.PIPE, stderr=subprocess.STDOUT)
    if p.returncode != 0:
        raise BuildError("command failed: %s\n%s" % (" ".join(cmd), p.stdout.decode(errors="replace")[-4000:]))
    return p.stdout.decode(errors="replace")


def pyf_functions(pyf):
    """names and argument name lists of every wrapped function, in pyf order"""
    txt = open(pyf).read()
    txt = re.sub(r"&\s*\n", " ", txt)
    out = []
    for m in re.finditer(r"^\s*(?:function|subroutine)\s+(\w+)\s*\(([^)]*)\)", txt, re.M):
        args = [a.strip() for a in m.group(2).split(",") if a.strip()]
        out.append((m.group(1), args))
    return out


def build(outdir, src=None, verbose=False):
    src = src or os.path.join(REPO, "src")
    t0 = time.time()
    os.makedirs(outdir, exist_ok=True)
    py = sys.executable
    import numpy
    import numpy.f2py
    f2py_src = os.path.join(os.path.dirname(numpy.f2py.__file__), "src")
    incs = ["-I" + src, "-I" + numpy.get_include(), "-I" + f2py_src,
            "-I" + sysconfig.get_paths()["include"]]
    extsuffix = sysconfig.get_config_var("EXT_SUFFIX")
    target = os.path.join(outdir, "_cImageD11" + extsuffix)

    # symbol rename file for the kernel objects
    redef = os.path.join(outdir, "redef.txt")
    with open(redef, "w") as f:
        for r in RENAMES:
            f.write("%s simw_%s\n" % (r, r))

    def compile_kernel(k):
        o = os.path.join(outdir, k + ".o")
        run(["gcc"] + KFLAGS + ["-I" + src, "-c", os.path.join(src, k + ".c"), "-o", o])
        run(["objcopy", "--redefine-syms=" + redef, o])
        if k in ("connectedpixels", "sparse_image"):
            # calls into blobs.c's dset_initialise go through the capacity knob
            run(["objcopy", "--redefine-sym", "dset_initialise=simw_dset_initialise", o])
        return o

    def gen_f2py():
        run([py, "-m", "numpy.f2py", os.path.join(src, "_cImageD11.pyf")], cwd=outdir)
        o1 = os.path.join(outdir, "_cImageD11module.o")
        run(["gcc", "-O1", "-fPIC", "-w"] + incs + ["-c", os.path.join(outdir, "_cImageD11module.c"), "-o", o1])
        return o1

    def comp_fortranobject():
        o2 = os.path.join(outdir, "fortranobject.o")
        run(["gcc", "-O1", "-fPIC", "-w"] + incs + ["-c", os.path.join(f2py_src, "fortranobject.c"), "-o", o2])
        return o2

    def comp_runtime():
        o3 = os.path.join(outdir, "simomp.o")
        run(["gcc", "-O2", "-fPIC", "-g0", "-c", os.path.join(HERE, "simomp.c"), "-o", o3])
        return o3

    def comp_shim():
        fns = pyf_functions(os.path.join(src, "_cImageD11.pyf"))
        shim = os.path.join(outdir, "shim.c")
        with open(shim, "w") as f:
            f.write("#include <string.h>\n")
            for name, _ in fns:
                f.write("extern void %s();\n" % name)
            f.write("static struct { const char *n; void *p; } tab[] = {\n")
            for name, _ in fns:
                f.write('  {"%s", (void*)%s},\n' % (name, name))
            f.write("  {0,0}};\n")
            f.write('__attribute__((visibility("default"))) void *simsym_lookup(const char *n){\n'
                    "  for(int i=0; tab[i].n; i++) if(!strcmp(tab[i].n,n)) return tab[i].p;\n  return 0; }\n")
        o4 = os.path.join(outdir, "shim.o")
        run(["gcc", "-O1", "-fPIC", "-w", "-c", shim, "-o", o4])
        return o4

    with ThreadPoolExecutor(16) as ex:
        futs = [ex.submit(compile_kernel, k) for k in KERNELS]
        futs += [ex.submit(gen_f2py), ex.submit(comp_fortranobject), ex.submit(comp_runtime), ex.submit(comp_shim)]
        objs = [f.result() for f in futs]
    run(["gcc", "-shared", "-Wl,-Bsymbolic", "-o", target] + objs + ["-lm"])
    # every simulator-provided entry point must be resolved inside the module
    und = run(["nm", "-u", target])
    bad = [l.split()[-1] for l in und.splitlines()
           if re.search(r"\b(GOMP_|omp_|__tsan_|simw_|GOACC_)", l)]
    if bad:
        raise BuildError("runtime entry points not implemented by simomp: %s" % " ".join(sorted(set(bad))))
    if verbose:
        print("built %s in %.1fs" % (target, time.time() - t0))
    return target


if __name__ == "__main__":
    d = sys.argv[1] if len(sys.argv) > 1 else tempfile.mkdtemp(prefix="simbuild_")
    print(build(d, verbose=True))
