"""
Python side of Engine A (simomp): load the instrumented module, configure the
simulated runtime, make strict kernel-level calls on simulator-owned stacks,
read back statistics and the event log.
"""
from __future__ import print_function
import ctypes, os, sys, struct, importlib.util
import numpy as np

MAXT = 256
STRAT = {"random": 0, "pct": 1, "rtc": 2, "rr": 3, "replay": 4}
STRAT_NAMES = {v: k for k, v in STRAT.items()}
VIOL = {0: None, 1: "oob", 2: "write-to-readonly", 3: "use-after-free", 4: "no-progress(step cap)",
        5: "deadlock", 6: "exit-called", 7: "assert-failed", 8: "bad-free", 9: "arena-exhausted"}
EV = {1: "seed", 2: "team", 3: "switch", 4: "alloc", 5: "realloc", 6: "free", 7: "viol", 8: "teamend", 9: "call"}
R, W, RW = 1, 2, 3


class Cfg(ctypes.Structure):
    _fields_ = [("seed", ctypes.c_uint64), ("garbage_seed", ctypes.c_uint64),
                ("team", ctypes.c_int32), ("deliver", ctypes.c_int32), ("strategy", ctypes.c_int32),
                ("p_inv", ctypes.c_int32), ("quantum", ctypes.c_int32), ("pct_d", ctypes.c_int32),
                ("pct_est", ctypes.c_uint64), ("step_cap", ctypes.c_uint64),
                ("strict", ctypes.c_int32), ("realloc_mode", ctypes.c_int32),
                ("dset_cap", ctypes.c_int32), ("track_conflicts", ctypes.c_int32)]


class Stats(ctypes.Structure):
    _fields_ = [(n, ctypes.c_uint64) for n in
                ("steps", "nswitch", "nconflict", "conflict_sig", "sched_sig", "digest",
                 "nalloc", "nrealloc_moved", "nrealloc_stay", "nfree", "prints")] + \
               [(n, ctypes.c_int32) for n in
                ("nteams", "nlog", "log_overflow", "aborted",
                 "viol_kind", "viol_region", "viol_rw", "viol_size", "viol_tid")] + \
               [("_pad", ctypes.c_int32), ("viol_off", ctypes.c_int64), ("viol_step", ctypes.c_uint64),
                ("team_hist", ctypes.c_uint64 * (MAXT + 1))]


class Ev(ctypes.Structure):
    _fields_ = [("step", ctypes.c_uint64), ("kind", ctypes.c_int32), ("a", ctypes.c_int32),
                ("b", ctypes.c_int64), ("c", ctypes.c_int64)]


class Sw(ctypes.Structure):
    _fields_ = [("step", ctypes.c_uint64), ("tid", ctypes.c_int32), ("team", ctypes.c_int32)]


class CallRec(ctypes.Structure):
    _fields_ = [("fn", ctypes.c_void_p), ("iargs", ctypes.c_long * 6), ("fargs", ctypes.c_double * 8),
                ("sargs", ctypes.c_long * 16), ("ret_kind", ctypes.c_int32), ("_pad", ctypes.c_int32),
                ("ret_l", ctypes.c_long), ("ret_d", ctypes.c_double)]


def _f32_as_double_bits(x):
    """a float argument travels in the low 32 bits of an SSE register"""
    b = struct.pack("<f", float(x)) + b"\0\0\0\0"
    return struct.unpack("<d", b)[0]


def _double_as_long(x):
    return struct.unpack("<q", struct.pack("<d", float(x)))[0]


class Sim(object):
    def __init__(self, path):
        self.path = path
        self.lib = ctypes.CDLL(path)
        L = self.lib
        L.sim_configure.argtypes = [ctypes.POINTER(Cfg)]
        L.sim_configure.restype = None
        L.sim_begin_run.restype = None
        L.sim_register.argtypes = [ctypes.c_void_p, ctypes.c_size_t, ctypes.c_int, ctypes.c_int]
        L.sim_register.restype = ctypes.c_int
        L.sim_get_stats.argtypes = [ctypes.POINTER(Stats)]
        L.sim_get_stats.restype = None
        L.sim_get_log.restype = ctypes.POINTER(Ev)
        L.sim_call.argtypes = [ctypes.POINTER(CallRec)]
        L.sim_call.restype = ctypes.c_int
        L.sim_call_multi.argtypes = [ctypes.POINTER(CallRec), ctypes.c_int]
        L.sim_call_multi.restype = ctypes.c_int
        L.sim_set_replay.argtypes = [ctypes.POINTER(Sw), ctypes.c_int]
        L.sim_set_replay.restype = None
        L.simsym_lookup.argtypes = [ctypes.c_char_p]
        L.simsym_lookup.restype = ctypes.c_void_p
        L.sim_set_note_fd.argtypes = [ctypes.c_int]
        self._syms = {}
        self.cfg = Cfg()
        self.configure()

    # ---------------------------------------------------------------- config
    def configure(self, seed=0, garbage_seed=0, team=1, deliver=0, strategy="rtc", p_inv=16, quantum=1,
                  pct_d=2, pct_est=1000, step_cap=50000000, strict=0, realloc_mode=0, dset_cap=0,
                  track_conflicts=0):
        c = self.cfg
        c.seed = seed & 0xFFFFFFFFFFFFFFFF
        c.garbage_seed = garbage_seed & 0xFFFFFFFFFFFFFFFF
        c.team = team
        c.deliver = deliver
        c.strategy = STRAT[strategy] if not isinstance(strategy, int) else strategy
        c.p_inv = p_inv
        c.quantum = quantum
        c.pct_d = pct_d
        c.pct_est = pct_est
        c.step_cap = step_cap
        c.strict = strict
        c.realloc_mode = realloc_mode
        c.dset_cap = dset_cap
        c.track_conflicts = track_conflicts
        self.lib.sim_configure(ctypes.byref(c))

    def cfg_dict(self):
        c = self.cfg
        d = {n: getattr(c, n) for n, _ in Cfg._fields_}
        d["strategy"] = STRAT_NAMES[d["strategy"]]
        return d

    def begin_run(self):
        self.lib.sim_begin_run()

    def set_replay(self, switches):
        n = len(switches)
        if n == 0:
            self.lib.sim_set_replay(None, 0)
            return
        arr = (Sw * n)()
        for i, (tm, s, t) in enumerate(switches):
            arr[i].team = tm
            arr[i].step = s
            arr[i].tid = t
        self.lib.sim_set_replay(arr, n)

    # ---------------------------------------------------------------- regions
    def register(self, arr, perm, rid):
        assert arr.flags["C_CONTIGUOUS"] or arr.size <= 1
        return self.lib.sim_register(arr.ctypes.data, arr.nbytes, perm, rid)

    # ---------------------------------------------------------------- calls
    def sym(self, name):
        p = self._syms.get(name)
        if p is None:
            p = self.lib.simsym_lookup(name.encode())
            if not p:
                raise KeyError("kernel %s not in module" % name)
            self._syms[name] = p
        return p

    def _fill(self, rec, name, args, ret):
        rec.fn = self.sym(name)
        ni = nf = ns = 0
        for kind, v in args:
            if kind == "p":
                v = v.ctypes.data if v is not None else 0
                kind = "i"
            if kind == "i":
                v = int(v)
                if ni < 6:
                    rec.iargs[ni] = v
                    ni += 1
                else:
                    rec.sargs[ns] = v
                    ns += 1
            elif kind in ("d", "f"):
                x = float(v) if kind == "d" else _f32_as_double_bits(v)
                if nf < 8:
                    rec.fargs[nf] = x
                    nf += 1
                else:
                    rec.sargs[ns] = _double_as_long(x)
                    ns += 1
            else:
                raise ValueError(kind)
            if ns > 16:
                raise ValueError("too many stack arguments")
        rec.ret_kind = 0 if ret in ("int", "void") else 1

    @staticmethod
    def _ret(rec, ret):
        if ret == "void":
            return None
        if ret == "int":
            return ctypes.c_int32(rec.ret_l & 0xFFFFFFFF).value
        if ret == "double":
            return rec.ret_d
        if ret == "float":
            return struct.unpack("<f", struct.pack("<d", rec.ret_d)[:4])[0]
        raise ValueError(ret)

    def call_multi(self, calls):
        """calls: list of (name, args, ret) made by concurrent caller threads; returns (aborted, [return values])"""
        n = len(calls)
        recs = (CallRec * n)()
        for k, (name, args, ret) in enumerate(calls):
            self._fill(recs[k], name, args, ret)
        ab = self.lib.sim_call_multi(recs, n)
        if ab:
            return ab, None
        return 0, [self._ret(recs[k], calls[k][2]) for k in range(n)]

    def call(self, name, args, ret="int"):
        """args: list of (kind, value); kind in 'p' (numpy array -> pointer), 'i' (integer), 'd' (double),
        'f' (float).  returns (aborted, return value)"""
        rec = CallRec()
        rec.fn = self.sym(name)
        ni = nf = ns = 0
        for kind, v in args:
            if kind == "p":
                v = v.ctypes.data if v is not None else 0
                kind = "i"
            if kind == "i":
                v = int(v)
                if ni < 6:
                    rec.iargs[ni] = v
                    ni += 1
                else:
                    rec.sargs[ns] = v
                    ns += 1
            elif kind in ("d", "f"):
                x = float(v) if kind == "d" else _f32_as_double_bits(v)
                if nf < 8:
                    rec.fargs[nf] = x
                    nf += 1
                else:
                    rec.sargs[ns] = _double_as_long(x)
                    ns += 1
            else:
                raise ValueError(kind)
            if ns > 16:
                raise ValueError("too many stack arguments")
        rec.ret_kind = 0 if ret in ("int", "void") else 1
        ab = self.lib.sim_call(ctypes.byref(rec))
        if ab:
            return 1, None
        if ret == "void":
            return 0, None
        if ret == "int":
            return 0, ctypes.c_int32(rec.ret_l & 0xFFFFFFFF).value
        if ret == "double":
            return 0, rec.ret_d
        if ret == "float":
            return 0, struct.unpack("<f", struct.pack("<d", rec.ret_d)[:4])[0]
        raise ValueError(ret)

    # ---------------------------------------------------------------- results
    def stats(self):
        s = Stats()
        self.lib.sim_get_stats(ctypes.byref(s))
        d = {}
        for n, _ in Stats._fields_:
            if n in ("_pad", "team_hist"):
                continue
            d[n] = getattr(s, n)
        d["team_hist"] = {i: int(s.team_hist[i]) for i in range(MAXT + 1) if s.team_hist[i]}
        d["violation"] = VIOL.get(d["viol_kind"], "?")
        return d

    def log(self, kinds=None):
        s = Stats()
        self.lib.sim_get_stats(ctypes.byref(s))
        p = self.lib.sim_get_log()
        out = []
        for i in range(s.nlog):
            e = p[i]
            if kinds is None or e.kind in kinds:
                out.append((int(e.step), EV.get(e.kind, e.kind), int(e.a), int(e.b), int(e.c)))
        return out

    def switches(self):
        """[(team index, team-relative step, tid)] for every context switch of the run"""
        out = []
        team = 0
        for step, kind, a, b, c in self.log():
            if kind == "team":
                team = b
            elif kind == "switch":
                out.append((team, b, a))
        return out


_loaded = {}


def load_module(path):
    """Import the instrumented extension as ImageD11._cImageD11 (before ImageD11.cImageD11 is imported)."""
    if "ImageD11._cImageD11" in sys.modules:
        m = sys.modules["ImageD11._cImageD11"]
        if getattr(m, "__file__", None) != path:
            raise RuntimeError("another _cImageD11 is already imported: %s" % getattr(m, "__file__", None))
        return m
    spec = importlib.util.spec_from_file_location("ImageD11._cImageD11", path)
    mod = importlib.util.module_from_spec(spec)
    spec.loader.exec_module(mod)
    sys.modules["ImageD11._cImageD11"] = mod
    return mod
