/*
 * simomp.c - deterministic OpenMP runtime + memory seam for ImageD11's C kernels
 *
 * The kernels (the .c files under /repo/src) are compiled with
 *     gcc -O2 -fopenmp -fsanitize=thread
 * and linked against THIS file instead of libgomp / libtsan.  gcc's tsan pass
 * is used as an instrumentation pass only: every load/store that may be
 * shared calls __tsan_read / __tsan_write (defined here), every parallel
 * region calls GOMP_parallel (defined here).
 *
 * One OS thread.  The members of an OpenMP team are coroutines; every
 * instrumented access, GOMP entry point and allocator call is a "step" at
 * which a seeded scheduler may switch to another coroutine.  One integer
 * seed therefore fixes the interleaving, the allocator behaviour and the
 * garbage that fills every byte the kernel did not write itself.
 *
 * x86-64 / SysV / Linux only.
 */
#define _GNU_SOURCE
#include <link.h>
#include <stddef.h>
#include <stdint.h>
#include <stdio.h>
#include <stdlib.h>
#include <string.h>
#include <sys/mman.h>
#include <unistd.h>

#define MAXT 256
#define TSTACK (192 * 1024)
#define V0STACK (2 * 1024 * 1024)
#define TFILL (12 * 1024)  /* bytes of each team stack (from the top) refilled with garbage per team */
#define V0FILL (96 * 1024) /* same for the serial stack, per call */
#define MAXREG 4096
#define MAXLOG 65536
#define MAXREPLAY (1 << 20)
#define NWS 8
#define ARENA_SIZE ((size_t)1 << 30)

#define EXPORT __attribute__((visibility("default")))

/* ------------------------------------------------------------------ */
/* context switch                                                      */
/* ------------------------------------------------------------------ */
void sim_switch(void **save_sp, void *new_sp);
void sim_tramp(void);
__asm__(".text\n"
        ".globl sim_switch\n"
        ".hidden sim_switch\n"
        ".type sim_switch,@function\n"
        "sim_switch:\n"
        "  pushq %rbp\n"
        "  pushq %rbx\n"
        "  pushq %r12\n"
        "  pushq %r13\n"
        "  pushq %r14\n"
        "  pushq %r15\n"
        "  subq $8,%rsp\n"
        "  stmxcsr (%rsp)\n"
        "  fnstcw 4(%rsp)\n"
        "  movq %rsp,(%rdi)\n"
        "  movq %rsi,%rsp\n"
        "  ldmxcsr (%rsp)\n"
        "  fldcw 4(%rsp)\n"
        "  addq $8,%rsp\n"
        "  popq %r15\n"
        "  popq %r14\n"
        "  popq %r13\n"
        "  popq %r12\n"
        "  popq %rbx\n"
        "  popq %rbp\n"
        "  ret\n"
        ".size sim_switch,.-sim_switch\n"
        ".globl sim_tramp\n"
        ".hidden sim_tramp\n"
        ".type sim_tramp,@function\n"
        "sim_tramp:\n"
        "  movq %r12,%rdi\n"
        "  callq *%r13\n"
        "  ud2\n"
        ".size sim_tramp,.-sim_tramp\n");

/* ------------------------------------------------------------------ */
/* state                                                               */
/* ------------------------------------------------------------------ */
enum { ST_FREE = 0, ST_RUN, ST_BARRIER, ST_LOCK, ST_DONE };
enum { STRAT_RANDOM = 0, STRAT_PCT = 1, STRAT_RTC = 2, STRAT_RR = 3, STRAT_REPLAY = 4 };
enum {
    EV_SEED = 1,
    EV_TEAM = 2,
    EV_SWITCH = 3,
    EV_ALLOC = 4,
    EV_REALLOC = 5,
    EV_FREE = 6,
    EV_VIOL = 7,
    EV_TEAMEND = 8,
    EV_CALL = 9
};
enum {
    V_OOB = 1,       /* access outside every registered region */
    V_RO_WRITE = 2,  /* write into an intent(in) region */
    V_UAF = 3,       /* touch of a freed heap block */
    V_STEPCAP = 4,   /* no progress within the step budget */
    V_DEADLOCK = 5,  /* team has unfinished members and none runnable */
    V_EXIT = 6,      /* exit() called inside a kernel */
    V_ASSERT = 7,    /* __assert_fail inside a kernel */
    V_BADFREE = 8,   /* free/realloc of a pointer that is not a live block */
    V_ARENA = 9      /* allocation request larger than the arena (harness limit) */
};
enum { R_READ = 1, R_WRITE = 2 };
enum { RK_ARG = 1, RK_HEAP = 2, RK_HEAP_FREED = 3 };

typedef struct {
    void *sp;
    char *stk;
    size_t stksz;
    int state;
    int tid;
    int prio;
    unsigned ws_count;
    int cur_ws;
    void (*fn)(void *);
    void *data;
} vth_t;

typedef struct {
    uintptr_t lo, hi;
    int perm;
    int kind;
    int id;
    uint8_t *shadow; /* one byte per 4 bytes: last writer tid+1 | 0x80 if read by another thread since */
} region_t;

typedef struct {
    unsigned id;
    int active;
    long next, end, incr, chunk;
    int single_taken;
    long sect_next, sect_count;
} ws_t;

typedef struct {
    uint64_t step;
    int32_t kind, a;
    int64_t b, c;
} ev_t;

typedef struct {
    uint64_t step; /* relative to the start of its team */
    int32_t tid;
    int32_t team; /* 1-based index of the team within the run */
} sw_t;

static struct {
    /* configuration (set between runs) */
    uint64_t seed;
    uint64_t garbage_seed;
    int team_default; /* what omp_get_max_threads reports / default team size */
    int deliver;      /* upper bound on the team actually delivered */
    int strategy;
    int p_inv;   /* random: switch with probability 1/p_inv per step */
    int quantum; /* rr */
    int pct_d;
    uint64_t pct_est; /* estimated steps per team for placing change points */
    int strict;       /* bounds checking on (only meaningful inside sim_call) */
    uint64_t step_cap;
    int realloc_mode; /* 0 always move, 1 stay in place when possible */
    int dset_cap;     /* initial disjoint-set capacity (0 = as the source asks) */
    int track_conflicts;
    int note_fd;
    /* run state */
    uint64_t rng;
    uint64_t steps;
    uint64_t nswitch;
    uint64_t nconflict;
    uint64_t conflict_sig;
    uint64_t sched_sig;
    uint64_t digest;
    int nteams;
    int in_team;
    int multi; /* the 'team' is a set of concurrent caller threads, each making its own kernel call */
    int nest;
    int nthreads;
    int cur;
    int ndone;
    int64_t until;
    int bar_count;
    int lock_owner[2];
    vth_t th[MAXT];
    void *home_sp;
    ws_t ws[NWS];
    uint64_t team_step0;
    uint64_t pct_change[8];
    int pct_nchange, pct_next;
    int rr_count;
    /* strict call */
    int in_call;
    int aborted;
    void *root_sp;
    vth_t v0;
    /* regions */
    region_t reg[MAXREG];
    int nreg;
    int mru;
    int next_heap_id;
    int reg_overflow; /* more heap blocks than MAXREG in one run: heap checking is switched off */
    /* arena */
    char *arena;
    size_t arena_off;
    uint64_t nalloc, nrealloc_moved, nrealloc_stay, nfree;
    /* image */
    uintptr_t img_lo[16], img_hi[16];
    int nimg;
    /* log */
    ev_t log[MAXLOG];
    int nlog;
    int log_overflow;
    /* replay */
    sw_t *replay;
    int replay_n, replay_i;
    /* violation */
    int viol_kind;
    int viol_region, viol_rw, viol_size, viol_tid;
    int64_t viol_off;
    uint64_t viol_step;
    uint64_t team_hist[MAXT + 1];
} G;

#define IN_ARENA(a) ((uintptr_t)(a) >= (uintptr_t)G.arena && (uintptr_t)(a) < (uintptr_t)G.arena + ARENA_SIZE)

static char *g_tstacks;
static int g_inited;

/* ------------------------------------------------------------------ */
/* prng (splitmix64)                                                   */
/* ------------------------------------------------------------------ */
static inline uint64_t mix64(uint64_t *s) {
    uint64_t z = (*s += 0x9E3779B97F4A7C15ULL);
    z = (z ^ (z >> 30)) * 0xBF58476D1CE4E5B9ULL;
    z = (z ^ (z >> 27)) * 0x94D049BB133111EBULL;
    return z ^ (z >> 31);
}
static inline uint64_t rnd(void) { return mix64(&G.rng); }
static inline uint64_t rnd_below(uint64_t n) { return n ? rnd() % n : 0; }
static inline void fold(uint64_t *h, uint64_t v) {
    *h ^= v + 0x9E3779B97F4A7C15ULL + (*h << 6) + (*h >> 2);
    *h *= 0x100000001B3ULL;
}

static void garbage_fill(void *p, size_t n, uint64_t salt) {
    uint64_t s = G.garbage_seed ^ (salt * 0xD1342543DE82EF95ULL);
    uint8_t *b = (uint8_t *)p;
    size_t i = 0;
    for (; i + 8 <= n; i += 8) {
        uint64_t v = mix64(&s);
        memcpy(b + i, &v, 8);
    }
    if (i < n) {
        uint64_t v = mix64(&s);
        memcpy(b + i, &v, n - i);
    }
}

static void logev(int kind, int a, int64_t b, int64_t c) {
    fold(&G.digest, ((uint64_t)kind << 56) ^ ((uint64_t)(uint32_t)a << 24) ^ (uint64_t)b ^ ((uint64_t)c << 17) ^
                        (G.steps * 0x9E3779B97F4A7C15ULL));
    if (G.nlog < MAXLOG) {
        ev_t *e = &G.log[G.nlog++];
        e->step = G.steps;
        e->kind = kind;
        e->a = a;
        e->b = b;
        e->c = c;
    } else {
        G.log_overflow = 1;
    }
}

/* ------------------------------------------------------------------ */
/* init                                                                */
/* ------------------------------------------------------------------ */
static int phdr_cb(struct dl_phdr_info *info, size_t size, void *data) {
    (void)size;
    uintptr_t me = (uintptr_t)data;
    int i, mine = 0;
    for (i = 0; i < info->dlpi_phnum; i++) {
        const ElfW(Phdr) *ph = &info->dlpi_phdr[i];
        if (ph->p_type != PT_LOAD)
            continue;
        uintptr_t lo = info->dlpi_addr + ph->p_vaddr;
        if (me >= lo && me < lo + ph->p_memsz)
            mine = 1;
    }
    if (!mine)
        return 0;
    for (i = 0; i < info->dlpi_phnum && G.nimg < 16; i++) {
        const ElfW(Phdr) *ph = &info->dlpi_phdr[i];
        if (ph->p_type != PT_LOAD)
            continue;
        G.img_lo[G.nimg] = info->dlpi_addr + ph->p_vaddr;
        G.img_hi[G.nimg] = G.img_lo[G.nimg] + ph->p_memsz;
        G.nimg++;
    }
    return 1;
}

static void sim_init_once(void) {
    if (g_inited)
        return;
    g_inited = 1;
    g_tstacks = mmap(NULL, (size_t)MAXT * TSTACK + V0STACK, PROT_READ | PROT_WRITE,
                     MAP_PRIVATE | MAP_ANONYMOUS | MAP_NORESERVE, -1, 0);
    G.arena = mmap(NULL, ARENA_SIZE, PROT_READ | PROT_WRITE, MAP_PRIVATE | MAP_ANONYMOUS | MAP_NORESERVE, -1, 0);
    if (g_tstacks == MAP_FAILED || G.arena == MAP_FAILED) {
        fprintf(stderr, "simomp: mmap failed\n");
        _exit(90);
    }
    for (int t = 0; t < MAXT; t++) {
        G.th[t].stk = g_tstacks + (size_t)t * TSTACK;
        G.th[t].stksz = TSTACK;
        G.th[t].tid = t;
    }
    G.v0.stk = g_tstacks + (size_t)MAXT * TSTACK;
    G.v0.stksz = V0STACK;
    dl_iterate_phdr(phdr_cb, (void *)(uintptr_t)&sim_init_once);
    G.team_default = 1;
    G.deliver = MAXT;
    G.p_inv = 16;
    G.quantum = 1;
    G.step_cap = 50000000ULL;
    G.note_fd = 2;
    G.lock_owner[0] = G.lock_owner[1] = -1;
}

__attribute__((constructor)) static void sim_ctor(void) { sim_init_once(); }

/* ------------------------------------------------------------------ */
/* violations and aborts                                               */
/* ------------------------------------------------------------------ */
static void note(const char *s) {
    if (G.note_fd >= 0) {
        ssize_t r = write(G.note_fd, s, strlen(s));
        (void)r;
    }
}

static void violation(int kind, int region, int64_t off, int size, int rw) {
    if (G.viol_kind == 0) {
        G.viol_kind = kind;
        G.viol_region = region;
        G.viol_off = off;
        G.viol_size = size;
        G.viol_rw = rw;
        G.viol_tid = G.in_team ? G.cur : -1;
        G.viol_step = G.steps;
    }
    logev(EV_VIOL, kind, ((int64_t)region << 32) | (uint32_t)size, off);
}

static void abort_run(void) {
    if (G.in_call) {
        void *dummy;
        G.aborted = 1;
        sim_switch(&dummy, G.root_sp);
        /* never resumed */
    }
    /* lenient mode: the kernel runs on the caller's own stack, we cannot unwind */
    {
        char buf[256];
        snprintf(buf, sizeof buf, "SIMOMP-ABORT kind=%d step=%llu seed=%llu\n", G.viol_kind,
                 (unsigned long long)G.steps, (unsigned long long)G.seed);
        note(buf);
    }
    _exit(100 + G.viol_kind);
}

/* ------------------------------------------------------------------ */
/* regions                                                             */
/* ------------------------------------------------------------------ */
static int find_region(uintptr_t a) {
    int m = G.mru;
    if (m < G.nreg && a >= G.reg[m].lo && a < G.reg[m].hi)
        return m;
    for (int i = G.nreg - 1; i >= 0; i--) {
        if (a >= G.reg[i].lo && a < G.reg[i].hi) {
            G.mru = i;
            return i;
        }
    }
    return -1;
}

static inline int on_sim_stack(uintptr_t a) {
    return a >= (uintptr_t)g_tstacks && a < (uintptr_t)g_tstacks + (size_t)MAXT * TSTACK + V0STACK;
}

static inline int in_image(uintptr_t a) {
    for (int i = 0; i < G.nimg; i++)
        if (a >= G.img_lo[i] && a < G.img_hi[i])
            return 1;
    return 0;
}

static void conflict_track(region_t *r, int ri, uintptr_t a, int size, int rw) {
    /* two shadow bytes per 4-byte granule: [last writer tid+1][last reader tid+1, 0xff = several] */
    uint8_t *sh = r->shadow + 2 * ((a - r->lo) >> 2);
    uint8_t me = (uint8_t)(G.cur + 1);
    int other = 0;
    (void)size;
    (void)ri;
    if (rw == R_WRITE) {
        if ((sh[0] && sh[0] != me) || (sh[1] && sh[1] != me))
            other = 1;
        sh[0] = me;
        sh[1] = 0;
    } else {
        if (sh[0] && sh[0] != me)
            other = 1;
        sh[1] = (sh[1] == 0 || sh[1] == me) ? me : 0xff;
    }
    if (other) {
        G.nconflict++;
        fold(&G.conflict_sig,
             ((uint64_t)r->id << 40) ^ ((uint64_t)(a - r->lo) << 8) ^ ((uint64_t)me << 2) ^ (uint64_t)rw);
    }
}

static inline void check_access(uintptr_t a, int size, int rw) {
    int ri;
    if (on_sim_stack(a))
        return;
    ri = find_region(a);
    if (ri >= 0) {
        region_t *r = &G.reg[ri];
        if (a + size > r->hi) {
            violation(V_OOB, r->id, (int64_t)(a - r->lo), size, rw);
            abort_run();
        }
        if (r->kind == RK_HEAP_FREED) {
            violation(V_UAF, r->id, (int64_t)(a - r->lo), size, rw);
            abort_run();
        }
        if (rw == R_WRITE && !(r->perm & R_WRITE)) {
            violation(V_RO_WRITE, r->id, (int64_t)(a - r->lo), size, rw);
            abort_run();
        }
        if (G.in_team && G.track_conflicts && r->shadow)
            conflict_track(r, ri, a, size, rw);
        return;
    }
    if (in_image(a))
        return;
    if (G.reg_overflow)
        return;
    /* nearest region, for the report */
    {
        int best = -1;
        int64_t bestd = 0;
        for (int i = 0; i < G.nreg; i++) {
            int64_t d = a < G.reg[i].lo ? (int64_t)(G.reg[i].lo - a) : (int64_t)(a - G.reg[i].hi + 1);
            if (best < 0 || d < bestd) {
                best = i;
                bestd = d;
            }
        }
        if (best >= 0)
            violation(V_OOB, G.reg[best].id, (int64_t)a - (int64_t)G.reg[best].lo, size, rw);
        else
            violation(V_OOB, -1, 0, size, rw);
    }
    abort_run();
}

EXPORT int sim_register(void *p, size_t n, int perm, int id) {
    if (G.nreg >= MAXREG)
        return -1;
    region_t *r = &G.reg[G.nreg];
    r->lo = (uintptr_t)p;
    r->hi = (uintptr_t)p + n;
    r->perm = perm;
    r->kind = RK_ARG;
    r->id = id;
    r->shadow = NULL;
    if (G.track_conflicts) {
        r->shadow = calloc(2 * ((n >> 2) + 2), 1);
    }
    return G.nreg++;
}

static void clear_regions(void) {
    for (int i = 0; i < G.nreg; i++) {
        if (G.reg[i].shadow)
            free(G.reg[i].shadow);
        G.reg[i].shadow = NULL;
    }
    G.nreg = 0;
    G.mru = 0;
}

/* ------------------------------------------------------------------ */
/* scheduler                                                           */
/* ------------------------------------------------------------------ */
static void do_switch(int next) {
    int prev = G.cur;
    G.cur = next;
    G.nswitch++;
    fold(&G.sched_sig, (G.steps - G.team_step0) * 131 + (uint64_t)next);
    logev(EV_SWITCH, next, (int64_t)(G.steps - G.team_step0), prev);
    sim_switch(&G.th[prev].sp, G.th[next].sp);
}

static void set_until(void) {
    switch (G.strategy) {
    case STRAT_RANDOM: {
        /* geometric gap with mean p_inv */
        int64_t gap = 1;
        if (G.p_inv > 1) {
            /* inverse transform on a 53-bit uniform */
            double u = (double)(rnd() >> 11) * (1.0 / 9007199254740992.0);
            double lp = __builtin_log1p(-1.0 / (double)G.p_inv);
            double g = __builtin_floor(__builtin_log1p(-u) / lp) + 1.0;
            if (g > 1e15)
                g = 1e15;
            gap = (int64_t)g;
            if (gap < 1)
                gap = 1;
        }
        G.until = gap;
        break;
    }
    case STRAT_PCT:
    case STRAT_RTC:
        if (G.pct_next < G.pct_nchange) {
            uint64_t rel = G.steps - G.team_step0;
            uint64_t at = G.pct_change[G.pct_next];
            G.until = at > rel ? (int64_t)(at - rel) : 1;
        } else {
            G.until = INT64_MAX;
        }
        break;
    case STRAT_RR:
        G.until = G.quantum > 0 ? G.quantum : 1;
        break;
    case STRAT_REPLAY:
        while (G.replay_i < G.replay_n && G.replay[G.replay_i].team < G.nteams)
            G.replay_i++;
        if (G.replay_i < G.replay_n && G.replay[G.replay_i].team == G.nteams) {
            uint64_t rel = G.steps - G.team_step0;
            uint64_t at = G.replay[G.replay_i].step;
            G.until = at > rel ? (int64_t)(at - rel) : 1;
        } else {
            G.until = INT64_MAX;
        }
        break;
    }
}

/* choose who runs next.  blocked: the current thread cannot continue. returns -1 if nobody can run */
static int choose(int blocked) {
    int n = G.nthreads, t;
    int cand[MAXT], nc = 0;
    for (t = 0; t < n; t++)
        if (G.th[t].state == ST_RUN)
            cand[nc++] = t;
    if (nc == 0)
        return -1;
    switch (G.strategy) {
    case STRAT_RANDOM:
        return cand[rnd_below((uint64_t)nc)];
    case STRAT_PCT:
    case STRAT_RTC: {
        int best = cand[0];
        for (t = 1; t < nc; t++)
            if (G.th[cand[t]].prio > G.th[best].prio)
                best = cand[t];
        return best;
    }
    case STRAT_RR: {
        for (t = 1; t <= n; t++) {
            int c = (G.cur + t) % n;
            if (G.th[c].state == ST_RUN)
                return c;
        }
        return cand[0];
    }
    case STRAT_REPLAY: {
        uint64_t rel = G.steps - G.team_step0;
        while (G.replay_i < G.replay_n &&
               (G.replay[G.replay_i].team < G.nteams ||
                (G.replay[G.replay_i].team == G.nteams && G.replay[G.replay_i].step < rel)))
            G.replay_i++; /* stale entries (after minimisation) */
        if (G.replay_i < G.replay_n && G.replay[G.replay_i].team == G.nteams &&
            G.replay[G.replay_i].step == rel) {
            int want = G.replay[G.replay_i].tid;
            G.replay_i++;
            if (want >= 0 && want < n && G.th[want].state == ST_RUN)
                return want;
        }
        if (!blocked)
            return G.cur;
        return cand[0];
    }
    }
    return cand[0];
}

static void team_finished(void);

/* the current thread cannot run any more (blocked or done): hand over */
static void resched_blocked(void) {
    int next = choose(1);
    if (next < 0) {
        if (G.ndone == G.nthreads) {
            team_finished();
            return; /* not reached */
        }
        violation(V_DEADLOCK, -1, 0, 0, 0);
        abort_run();
    }
    set_until();
    if (next != G.cur)
        do_switch(next);
}

static void preempt(void) {
    int next;
    if (G.strategy == STRAT_PCT || G.strategy == STRAT_RTC) {
        /* priority change point: the running thread drops below everybody */
        if (G.pct_next < G.pct_nchange) {
            G.th[G.cur].prio = -(G.pct_next + 1);
            G.pct_next++;
        }
    }
    next = choose(0);
    set_until();
    if (next >= 0 && next != G.cur)
        do_switch(next);
}

static inline void step_point(void) {
    G.steps++;
    if (G.in_team && !G.nest) {
        if (--G.until <= 0)
            preempt();
    }
    if (G.steps > G.step_cap) {
        violation(V_STEPCAP, -1, 0, 0, 0);
        abort_run();
    }
}

/* ------------------------------------------------------------------ */
/* coroutines                                                          */
/* ------------------------------------------------------------------ */
static void make_ctx(vth_t *t, void (*entry)(void *), void *arg, size_t fill, uint64_t salt) {
    char *top = t->stk + t->stksz;
    if (fill > t->stksz)
        fill = t->stksz;
    garbage_fill(top - fill, fill, salt);
    uint64_t *sp = (uint64_t *)(((uintptr_t)top - 64) & ~(uintptr_t)15);
    /* layout popped by sim_switch: [mxcsr|fpucw] r15 r14 r13 r12 rbx rbp ret */
    *--sp = (uint64_t)sim_tramp;  /* ret target */
    *--sp = 0;                    /* rbp */
    *--sp = 0;                    /* rbx */
    *--sp = (uint64_t)arg;        /* r12 */
    *--sp = (uint64_t)entry;      /* r13 */
    *--sp = 0;                    /* r14 */
    *--sp = 0;                    /* r15 */
    *--sp = 0x1F80ULL | ((uint64_t)0x037F << 32); /* mxcsr, fpu cw */
    t->sp = sp;
}

static void team_finished(void) {
    void *dummy;
    sim_switch(&dummy, G.home_sp);
}

static void th_entry(void *arg) {
    vth_t *t = (vth_t *)arg;
    t->fn(t->data);
    t->state = ST_DONE;
    G.ndone++;
    /* implicit barrier at the end of the region: nothing to do, wait for the others */
    if (G.ndone == G.nthreads)
        team_finished();
    resched_blocked();
    /* a finished thread is never chosen again */
    for (;;)
        team_finished();
}

static void team_run(void (*fn)(void *), void *data, unsigned nthreads, int preinit_ws) {
    int n = nthreads ? (int)nthreads : G.team_default;
    int t;
    if (n > G.deliver)
        n = G.deliver;
    if (n > MAXT)
        n = MAXT;
    if (n < 1)
        n = 1;
    G.nteams++;
    G.team_hist[n]++;
    G.nthreads = n;
    G.ndone = 0;
    G.bar_count = 0;
    G.lock_owner[0] = G.lock_owner[1] = -1;
    G.team_step0 = G.steps;
    if (!preinit_ws)
        for (t = 0; t < NWS; t++)
            G.ws[t].active = 0;
    for (t = 0; t < n; t++) {
        vth_t *th = &G.th[t];
        th->state = ST_RUN;
        th->fn = fn;
        th->data = data;
        th->ws_count = preinit_ws ? 1 : 0;
        th->cur_ws = preinit_ws ? 0 : -1;
        th->prio = 0;
        make_ctx(th, th_entry, th, TFILL, ((uint64_t)G.nteams << 8) + (uint64_t)t + 1000);
    }
    logev(EV_TEAM, n, (int64_t)G.nteams, G.strategy);
    /* strategy set-up for this team */
    G.pct_nchange = 0;
    G.pct_next = 0;
    if (G.strategy == STRAT_PCT || G.strategy == STRAT_RTC) {
        /* random distinct priorities n..1 */
        int perm[MAXT];
        for (t = 0; t < n; t++)
            perm[t] = t;
        for (t = n - 1; t > 0; t--) {
            int j = (int)rnd_below((uint64_t)t + 1);
            int x = perm[t];
            perm[t] = perm[j];
            perm[j] = x;
        }
        for (t = 0; t < n; t++)
            G.th[perm[t]].prio = t + 1;
        if (G.strategy == STRAT_PCT) {
            int d = G.pct_d > 8 ? 8 : G.pct_d;
            uint64_t est = G.pct_est ? G.pct_est : 1000;
            for (t = 0; t < d; t++)
                G.pct_change[t] = 1 + rnd_below(est);
            /* sort */
            for (int i = 1; i < d; i++) {
                uint64_t x = G.pct_change[i];
                int j = i - 1;
                while (j >= 0 && G.pct_change[j] > x) {
                    G.pct_change[j + 1] = G.pct_change[j];
                    j--;
                }
                G.pct_change[j + 1] = x;
            }
            G.pct_nchange = d;
        }
    }
    G.in_team = 1;
    {
        int first;
        G.cur = 0;
        first = choose(1);
        if (first < 0)
            first = 0;
        G.cur = first;
        set_until();
        G.nswitch++;
        fold(&G.sched_sig, (uint64_t)first + 7);
        logev(EV_SWITCH, first, 0, -1);
        sim_switch(&G.home_sp, G.th[first].sp);
    }
    G.in_team = 0;
    logev(EV_TEAMEND, n, (int64_t)(G.steps - G.team_step0), 0);
}

/* ------------------------------------------------------------------ */
/* GOMP / omp ABI                                                      */
/* ------------------------------------------------------------------ */
EXPORT void GOMP_parallel(void (*fn)(void *), void *data, unsigned nthreads, unsigned flags) {
    (void)flags;
    sim_init_once();
    if (G.in_team) {
        /* nested region: serialised, as libgomp does by default */
        G.nest++;
        fn(data);
        G.nest--;
        return;
    }
    G.steps++;
    team_run(fn, data, nthreads, 0);
}

EXPORT int omp_get_thread_num(void) { return (G.in_team && !G.nest && !G.multi) ? G.cur : 0; }
EXPORT int omp_get_num_threads(void) { return (G.in_team && !G.nest && !G.multi) ? G.nthreads : 1; }
EXPORT int omp_get_max_threads(void) { return G.team_default; }
EXPORT void omp_set_num_threads(int n) {
    if (n >= 1)
        G.team_default = n > MAXT ? MAXT : n;
}
EXPORT int omp_get_num_procs(void) { return G.team_default; }
EXPORT int omp_in_parallel(void) { return G.in_team && G.nthreads > 1; }
EXPORT double omp_get_wtime(void) { return (double)G.steps * 1e-9; }
EXPORT int omp_get_level(void) { return G.in_team ? 1 + G.nest : 0; }

EXPORT void GOMP_barrier(void) {
    if (!G.in_team || G.nest)
        return;
    step_point();
    G.bar_count++;
    if (G.bar_count == G.nthreads - G.ndone) {
        for (int t = 0; t < G.nthreads; t++)
            if (G.th[t].state == ST_BARRIER)
                G.th[t].state = ST_RUN;
        G.bar_count = 0;
        return;
    }
    G.th[G.cur].state = ST_BARRIER;
    resched_blocked();
}

static void lock_acquire(int which) {
    if (!G.in_team || G.nest)
        return;
    step_point();
    while (G.lock_owner[which] >= 0 && G.lock_owner[which] != G.cur) {
        G.th[G.cur].state = ST_LOCK;
        resched_blocked();
    }
    G.lock_owner[which] = G.cur;
}
static void lock_release(int which) {
    if (!G.in_team || G.nest)
        return;
    G.lock_owner[which] = -1;
    for (int t = 0; t < G.nthreads; t++)
        if (G.th[t].state == ST_LOCK)
            G.th[t].state = ST_RUN;
    step_point();
}
EXPORT void GOMP_critical_start(void) { lock_acquire(0); }
EXPORT void GOMP_critical_end(void) { lock_release(0); }
EXPORT void GOMP_critical_name_start(void **p) {
    (void)p;
    lock_acquire(0);
}
EXPORT void GOMP_critical_name_end(void **p) {
    (void)p;
    lock_release(0);
}
EXPORT void GOMP_atomic_start(void) { lock_acquire(1); }
EXPORT void GOMP_atomic_end(void) { lock_release(1); }

/* work sharing */
static ws_t *ws_enter(long start, long end, long incr, long chunk) {
    if (!G.in_team || G.nest) {
        ws_t *w = &G.ws[NWS - 1];
        w->active = 1;
        w->next = start;
        w->end = end;
        w->incr = incr;
        w->chunk = chunk > 0 ? chunk : 1;
        w->single_taken = 0;
        return w;
    }
    vth_t *t = &G.th[G.cur];
    unsigned id = ++t->ws_count;
    int slot = (int)(id % (NWS - 1));
    ws_t *w = &G.ws[slot];
    if (!w->active || w->id != id) {
        w->active = 1;
        w->id = id;
        w->next = start;
        w->end = end;
        w->incr = incr;
        w->chunk = chunk > 0 ? chunk : 1;
        w->single_taken = 0;
        w->sect_next = 1;
        w->sect_count = 0;
    }
    t->cur_ws = slot;
    return w;
}
static ws_t *ws_cur(void) {
    if (!G.in_team || G.nest)
        return &G.ws[NWS - 1];
    int s = G.th[G.cur].cur_ws;
    if (s < 0)
        s = 0;
    return &G.ws[s];
}
static int ws_next(ws_t *w, long *istart, long *iend) {
    long n;
    if (w->incr > 0) {
        if (w->next >= w->end)
            return 0;
        n = w->chunk * w->incr;
        *istart = w->next;
        *iend = (w->end - w->next <= n) ? w->end : w->next + n;
    } else {
        if (w->next <= w->end)
            return 0;
        n = w->chunk * w->incr;
        *istart = w->next;
        *iend = (w->end - w->next >= n) ? w->end : w->next + n;
    }
    w->next = *iend;
    return 1;
}
#define LOOP_START(NAME)                                                                                               \
    EXPORT int NAME(long start, long end, long incr, long chunk, long *istart, long *iend) {                           \
        step_point();                                                                                                  \
        return ws_next(ws_enter(start, end, incr, chunk), istart, iend);                                               \
    }
#define LOOP_START_NOCHUNK(NAME)                                                                                       \
    EXPORT int NAME(long start, long end, long incr, long *istart, long *iend) {                                       \
        step_point();                                                                                                  \
        return ws_next(ws_enter(start, end, incr, 1), istart, iend);                                                   \
    }
#define LOOP_NEXT(NAME)                                                                                                \
    EXPORT int NAME(long *istart, long *iend) {                                                                        \
        step_point();                                                                                                  \
        return ws_next(ws_cur(), istart, iend);                                                                        \
    }
LOOP_START(GOMP_loop_nonmonotonic_dynamic_start)
LOOP_START(GOMP_loop_dynamic_start)
LOOP_START(GOMP_loop_guided_start)
LOOP_START(GOMP_loop_nonmonotonic_guided_start)
LOOP_START(GOMP_loop_static_start)
LOOP_START_NOCHUNK(GOMP_loop_runtime_start)
LOOP_START_NOCHUNK(GOMP_loop_nonmonotonic_runtime_start)
LOOP_START_NOCHUNK(GOMP_loop_maybe_nonmonotonic_runtime_start)
LOOP_NEXT(GOMP_loop_nonmonotonic_dynamic_next)
LOOP_NEXT(GOMP_loop_dynamic_next)
LOOP_NEXT(GOMP_loop_guided_next)
LOOP_NEXT(GOMP_loop_nonmonotonic_guided_next)
LOOP_NEXT(GOMP_loop_static_next)
LOOP_NEXT(GOMP_loop_runtime_next)
LOOP_NEXT(GOMP_loop_nonmonotonic_runtime_next)
LOOP_NEXT(GOMP_loop_maybe_nonmonotonic_runtime_next)
EXPORT void GOMP_loop_end(void) { GOMP_barrier(); }
EXPORT void GOMP_loop_end_nowait(void) { step_point(); }

#define PAR_LOOP(NAME)                                                                                                 \
    EXPORT void NAME(void (*fn)(void *), void *data, unsigned nthreads, long start, long end, long incr, long chunk,   \
                     unsigned flags) {                                                                                 \
        (void)flags;                                                                                                   \
        if (G.in_team) {                                                                                               \
            ws_t *w = &G.ws[NWS - 1];                                                                                  \
            w->active = 1;                                                                                             \
            w->next = start;                                                                                           \
            w->end = end;                                                                                              \
            w->incr = incr;                                                                                            \
            w->chunk = chunk > 0 ? chunk : 1;                                                                          \
            G.nest++;                                                                                                  \
            fn(data);                                                                                                  \
            G.nest--;                                                                                                  \
            return;                                                                                                    \
        }                                                                                                              \
        for (int t = 0; t < NWS; t++)                                                                                  \
            G.ws[t].active = 0;                                                                                        \
        G.ws[0].active = 1;                                                                                            \
        G.ws[0].id = 0;                                                                                                \
        G.ws[0].next = start;                                                                                          \
        G.ws[0].end = end;                                                                                             \
        G.ws[0].incr = incr;                                                                                           \
        G.ws[0].chunk = chunk > 0 ? chunk : 1;                                                                         \
        G.steps++;                                                                                                     \
        team_run(fn, data, nthreads, 1);                                                                               \
    }
PAR_LOOP(GOMP_parallel_loop_nonmonotonic_dynamic)
PAR_LOOP(GOMP_parallel_loop_dynamic)
PAR_LOOP(GOMP_parallel_loop_guided)
PAR_LOOP(GOMP_parallel_loop_nonmonotonic_guided)
PAR_LOOP(GOMP_parallel_loop_static)

EXPORT int GOMP_single_start(void) {
    step_point();
    if (!G.in_team || G.nest)
        return 1;
    ws_t *w = ws_enter(0, 0, 1, 1);
    if (w->single_taken)
        return 0;
    w->single_taken = 1;
    return 1;
}
EXPORT unsigned GOMP_sections_start(unsigned count) {
    step_point();
    ws_t *w = ws_enter(0, 0, 1, 1);
    if (w->sect_count == 0) {
        w->sect_count = count;
        w->sect_next = 1;
    }
    if (w->sect_next > w->sect_count)
        return 0;
    return (unsigned)w->sect_next++;
}
EXPORT unsigned GOMP_sections_next(void) {
    step_point();
    ws_t *w = ws_cur();
    if (w->sect_next > w->sect_count)
        return 0;
    return (unsigned)w->sect_next++;
}
EXPORT void GOMP_sections_end(void) { GOMP_barrier(); }
EXPORT void GOMP_sections_end_nowait(void) { step_point(); }

/* ------------------------------------------------------------------ */
/* tsan instrumentation callbacks                                      */
/* ------------------------------------------------------------------ */
EXPORT void __tsan_init(void) { sim_init_once(); }
EXPORT void __tsan_func_entry(void *pc) { (void)pc; }
EXPORT void __tsan_func_exit(void) {}
EXPORT void __tsan_vptr_update(void **a, void *b) {
    (void)a;
    (void)b;
}
EXPORT void __tsan_vptr_read(void **a) { (void)a; }

#define ACCESS(addr, size, rw)                                                                                         \
    do {                                                                                                               \
        step_point();                                                                                                  \
        if (G.strict && G.in_call)                                                                                     \
            check_access((uintptr_t)(addr), (size), (rw));                                                             \
        else if (IN_ARENA(addr))                                                                                       \
            check_access((uintptr_t)(addr), (size), (rw)); /* lenient mode: the simulated heap is still exact */        \
    } while (0)

#define TSAN_RW(N)                                                                                                     \
    EXPORT void __tsan_read##N(void *a) { ACCESS(a, N, R_READ); }                                                      \
    EXPORT void __tsan_write##N(void *a) { ACCESS(a, N, R_WRITE); }                                                    \
    EXPORT void __tsan_unaligned_read##N(void *a) { ACCESS(a, N, R_READ); }                                            \
    EXPORT void __tsan_unaligned_write##N(void *a) { ACCESS(a, N, R_WRITE); }                                          \
    EXPORT void __tsan_read##N##_pc(void *a, void *pc) {                                                               \
        (void)pc;                                                                                                      \
        ACCESS(a, N, R_READ);                                                                                          \
    }                                                                                                                  \
    EXPORT void __tsan_write##N##_pc(void *a, void *pc) {                                                              \
        (void)pc;                                                                                                      \
        ACCESS(a, N, R_WRITE);                                                                                         \
    }
TSAN_RW(1)
TSAN_RW(2)
TSAN_RW(4)
TSAN_RW(8)
TSAN_RW(16)

static void range_access(void *a, size_t n, int rw) {
    step_point();
    if (((G.strict && G.in_call) || IN_ARENA(a)) && n) {
        check_access((uintptr_t)a, 1, rw);
        if (n > 1)
            check_access((uintptr_t)a + n - 1, 1, rw);
        /* also make sure the whole range lies in one region */
        if (!on_sim_stack((uintptr_t)a)) {
            int ri = find_region((uintptr_t)a);
            if (ri >= 0 && (uintptr_t)a + n > G.reg[ri].hi) {
                violation(V_OOB, G.reg[ri].id, (int64_t)((uintptr_t)a - G.reg[ri].lo), (int)n, rw);
                abort_run();
            }
        }
    }
}
EXPORT void __tsan_read_range(void *a, size_t n) { range_access(a, n, R_READ); }
EXPORT void __tsan_write_range(void *a, size_t n) { range_access(a, n, R_WRITE); }
EXPORT void __tsan_read_range_pc(void *a, size_t n, void *pc) {
    (void)pc;
    range_access(a, n, R_READ);
}
EXPORT void __tsan_write_range_pc(void *a, size_t n, void *pc) {
    (void)pc;
    range_access(a, n, R_WRITE);
}

/* atomics: one OS thread, so the operation itself is trivially atomic; it is a step */
#define TSAN_ATOMIC(BITS, T)                                                                                           \
    EXPORT T __tsan_atomic##BITS##_load(const volatile T *a, int mo) {                                                 \
        (void)mo;                                                                                                      \
        ACCESS(a, BITS / 8, R_READ);                                                                                   \
        return *a;                                                                                                     \
    }                                                                                                                  \
    EXPORT void __tsan_atomic##BITS##_store(volatile T *a, T v, int mo) {                                              \
        (void)mo;                                                                                                      \
        ACCESS(a, BITS / 8, R_WRITE);                                                                                  \
        *a = v;                                                                                                        \
    }                                                                                                                  \
    EXPORT T __tsan_atomic##BITS##_exchange(volatile T *a, T v, int mo) {                                              \
        (void)mo;                                                                                                      \
        ACCESS(a, BITS / 8, R_WRITE);                                                                                  \
        T o = *a;                                                                                                      \
        *a = v;                                                                                                        \
        return o;                                                                                                      \
    }                                                                                                                  \
    EXPORT T __tsan_atomic##BITS##_fetch_add(volatile T *a, T v, int mo) {                                             \
        (void)mo;                                                                                                      \
        ACCESS(a, BITS / 8, R_WRITE);                                                                                  \
        T o = *a;                                                                                                      \
        *a = (T)(o + v);                                                                                               \
        return o;                                                                                                      \
    }                                                                                                                  \
    EXPORT T __tsan_atomic##BITS##_fetch_sub(volatile T *a, T v, int mo) {                                             \
        (void)mo;                                                                                                      \
        ACCESS(a, BITS / 8, R_WRITE);                                                                                  \
        T o = *a;                                                                                                      \
        *a = (T)(o - v);                                                                                               \
        return o;                                                                                                      \
    }                                                                                                                  \
    EXPORT T __tsan_atomic##BITS##_fetch_and(volatile T *a, T v, int mo) {                                             \
        (void)mo;                                                                                                      \
        ACCESS(a, BITS / 8, R_WRITE);                                                                                  \
        T o = *a;                                                                                                      \
        *a = (T)(o & v);                                                                                               \
        return o;                                                                                                      \
    }                                                                                                                  \
    EXPORT T __tsan_atomic##BITS##_fetch_or(volatile T *a, T v, int mo) {                                              \
        (void)mo;                                                                                                      \
        ACCESS(a, BITS / 8, R_WRITE);                                                                                  \
        T o = *a;                                                                                                      \
        *a = (T)(o | v);                                                                                               \
        return o;                                                                                                      \
    }                                                                                                                  \
    EXPORT T __tsan_atomic##BITS##_fetch_xor(volatile T *a, T v, int mo) {                                             \
        (void)mo;                                                                                                      \
        ACCESS(a, BITS / 8, R_WRITE);                                                                                  \
        T o = *a;                                                                                                      \
        *a = (T)(o ^ v);                                                                                               \
        return o;                                                                                                      \
    }                                                                                                                  \
    EXPORT T __tsan_atomic##BITS##_fetch_nand(volatile T *a, T v, int mo) {                                            \
        (void)mo;                                                                                                      \
        ACCESS(a, BITS / 8, R_WRITE);                                                                                  \
        T o = *a;                                                                                                      \
        *a = (T) ~(o & v);                                                                                             \
        return o;                                                                                                      \
    }                                                                                                                  \
    EXPORT int __tsan_atomic##BITS##_compare_exchange_strong(volatile T *a, T *c, T v, int mo, int fmo) {              \
        (void)mo;                                                                                                      \
        (void)fmo;                                                                                                     \
        ACCESS(a, BITS / 8, R_WRITE);                                                                                  \
        if (*a == *c) {                                                                                                \
            *a = v;                                                                                                    \
            return 1;                                                                                                  \
        }                                                                                                              \
        *c = *a;                                                                                                       \
        return 0;                                                                                                      \
    }                                                                                                                  \
    EXPORT int __tsan_atomic##BITS##_compare_exchange_weak(volatile T *a, T *c, T v, int mo, int fmo) {                \
        return __tsan_atomic##BITS##_compare_exchange_strong(a, c, v, mo, fmo);                                        \
    }                                                                                                                  \
    EXPORT T __tsan_atomic##BITS##_compare_exchange_val(volatile T *a, T c, T v, int mo, int fmo) {                    \
        (void)mo;                                                                                                      \
        (void)fmo;                                                                                                     \
        ACCESS(a, BITS / 8, R_WRITE);                                                                                  \
        T o = *a;                                                                                                      \
        if (o == c)                                                                                                    \
            *a = v;                                                                                                    \
        return o;                                                                                                      \
    }
TSAN_ATOMIC(8, uint8_t)
TSAN_ATOMIC(16, uint16_t)
TSAN_ATOMIC(32, uint32_t)
TSAN_ATOMIC(64, uint64_t)
EXPORT void __tsan_atomic_thread_fence(int mo) {
    (void)mo;
    step_point();
}
EXPORT void __tsan_atomic_signal_fence(int mo) { (void)mo; }

/* ------------------------------------------------------------------ */
/* allocator seam (kernel objects have malloc & co renamed to simw_*)  */
/* ------------------------------------------------------------------ */
static void *arena_alloc(size_t n, int zero) {
    size_t need = (n + 15) & ~(size_t)15;
    if (need == 0)
        need = 16;
    /* a 16 byte gap between blocks, never part of any region */
    if (G.arena_off + need + 16 > ARENA_SIZE) {
        violation(V_ARENA, -1, (int64_t)n, 0, 0);
        abort_run();
    }
    char *p = G.arena + G.arena_off;
    G.arena_off += need + 16;
    if (zero)
        memset(p, 0, n);
    else
        garbage_fill(p, n, 77 + G.nalloc);
    G.nalloc++;
    if (G.nreg >= MAXREG)
        G.reg_overflow = 1;
    if (G.nreg < MAXREG) {
        region_t *r = &G.reg[G.nreg++];
        r->lo = (uintptr_t)p;
        r->hi = (uintptr_t)p + n;
        r->perm = R_READ | R_WRITE;
        r->kind = RK_HEAP;
        r->id = 1000 + G.next_heap_id++;
        r->shadow = G.track_conflicts ? calloc(2 * ((n >> 2) + 2), 1) : NULL;
    }
    logev(EV_ALLOC, zero, (int64_t)n, 0);
    return p;
}
static int heap_region_of(void *p) {
    for (int i = G.nreg - 1; i >= 0; i--)
        if (G.reg[i].lo == (uintptr_t)p && (G.reg[i].kind == RK_HEAP || G.reg[i].kind == RK_HEAP_FREED))
            return i;
    return -1;
}
EXPORT void *simw_malloc(size_t n) {
    step_point();
    return arena_alloc(n, 0);
}
EXPORT void *simw_calloc(size_t a, size_t b) {
    step_point();
    return arena_alloc(a * b, 1);
}
EXPORT void simw_free(void *p) {
    step_point();
    if (!p)
        return;
    int ri = heap_region_of(p);
    if (ri < 0 || G.reg[ri].kind != RK_HEAP) {
        violation(V_BADFREE, ri >= 0 ? G.reg[ri].id : -1, 0, 0, 0);
        abort_run();
        return;
    }
    G.reg[ri].kind = RK_HEAP_FREED;
    garbage_fill(p, G.reg[ri].hi - G.reg[ri].lo, 991 + G.nfree); /* poison */
    G.nfree++;
    logev(EV_FREE, G.reg[ri].id, 0, 0);
}
EXPORT void *simw_realloc(void *p, size_t n) {
    step_point();
    if (!p)
        return arena_alloc(n, 0);
    int ri = heap_region_of(p);
    if (ri < 0 || G.reg[ri].kind != RK_HEAP) {
        violation(V_BADFREE, ri >= 0 ? G.reg[ri].id : -1, 0, 0, 1);
        abort_run();
        return NULL;
    }
    size_t old = G.reg[ri].hi - G.reg[ri].lo;
    if (G.realloc_mode == 1) {
        /* stay in place when this is the last block of the arena or it shrinks */
        char *end = (char *)p + ((old + 15) & ~(size_t)15) + 16;
        if (n <= old || end == G.arena + G.arena_off) {
            if (n > old) {
                size_t need = (n + 15) & ~(size_t)15;
                if ((size_t)((char *)p - G.arena) + need + 16 <= ARENA_SIZE) {
                    G.arena_off = (size_t)((char *)p - G.arena) + need + 16;
                    garbage_fill((char *)p + old, n - old, 55 + G.nalloc);
                    if (G.reg[ri].shadow) {
                        free(G.reg[ri].shadow);
                        G.reg[ri].shadow = calloc(2 * ((n >> 2) + 2), 1);
                    }
                    G.reg[ri].hi = (uintptr_t)p + n;
                    G.nrealloc_stay++;
                    logev(EV_REALLOC, 0, (int64_t)n, (int64_t)old);
                    return p;
                }
            } else {
                G.reg[ri].hi = (uintptr_t)p + n;
                G.nrealloc_stay++;
                logev(EV_REALLOC, 0, (int64_t)n, (int64_t)old);
                return p;
            }
        }
    }
    void *q = arena_alloc(n, 0);
    ri = heap_region_of(p); /* arena_alloc appended a region; index of p unchanged but be safe */
    memcpy(q, p, old < n ? old : n);
    G.reg[ri].kind = RK_HEAP_FREED;
    garbage_fill(p, old, 313 + G.nrealloc_moved);
    G.nrealloc_moved++;
    logev(EV_REALLOC, 1, (int64_t)n, (int64_t)old);
    return q;
}
EXPORT void *simw_memset(void *p, int c, size_t n) {
    range_access(p, n, R_WRITE);
    return memset(p, c, n);
}
EXPORT void *simw_memcpy(void *d, const void *s, size_t n) {
    range_access((void *)s, n, R_READ);
    range_access(d, n, R_WRITE);
    return memcpy(d, s, n);
}
EXPORT void *simw_memmove(void *d, const void *s, size_t n) {
    range_access((void *)s, n, R_READ);
    range_access(d, n, R_WRITE);
    return memmove(d, s, n);
}
EXPORT void simw_exit(int code) {
    violation(V_EXIT, -1, code, 0, 0);
    abort_run();
    _exit(100 + V_EXIT);
}
EXPORT void simw___assert_fail(const char *e, const char *f, unsigned line, const char *fn) {
    (void)e;
    (void)f;
    (void)fn;
    violation(V_ASSERT, -1, (int64_t)line, 0, 0);
    abort_run();
    _exit(100 + V_ASSERT);
}
/* silence the kernels' chatter but keep it countable */
static uint64_t g_prints;
EXPORT int simw_printf(const char *fmt, ...) {
    (void)fmt;
    g_prints++;
    return 0;
}
EXPORT int simw_puts(const char *s) {
    (void)s;
    g_prints++;
    return 0;
}
EXPORT int simw_putchar(int c) {
    g_prints++;
    return c;
}

extern int32_t *dset_initialise(int32_t size);
EXPORT int32_t *simw_dset_initialise(int32_t size) {
    if (G.dset_cap >= 4 && size == 16384)
        size = G.dset_cap;
    return dset_initialise(size);
}

/* ------------------------------------------------------------------ */
/* harness interface                                                   */
/* ------------------------------------------------------------------ */
typedef struct {
    uint64_t seed, garbage_seed;
    int32_t team, deliver, strategy, p_inv, quantum, pct_d;
    uint64_t pct_est, step_cap;
    int32_t strict, realloc_mode, dset_cap, track_conflicts;
} sim_cfg_t;

EXPORT void sim_configure(const sim_cfg_t *c) {
    sim_init_once();
    G.seed = c->seed;
    G.garbage_seed = c->garbage_seed;
    G.team_default = c->team < 1 ? 1 : (c->team > MAXT ? MAXT : c->team);
    G.deliver = c->deliver < 1 ? MAXT : c->deliver;
    G.strategy = c->strategy;
    G.p_inv = c->p_inv < 1 ? 1 : c->p_inv;
    G.quantum = c->quantum < 1 ? 1 : c->quantum;
    G.pct_d = c->pct_d;
    G.pct_est = c->pct_est;
    G.step_cap = c->step_cap ? c->step_cap : 50000000ULL;
    G.strict = c->strict;
    G.realloc_mode = c->realloc_mode;
    G.dset_cap = c->dset_cap;
    G.track_conflicts = c->track_conflicts;
}

/* start of a run: reset counters, log, arena, regions */
/* keep the heap blocks that are still alive (a kernel may legitimately keep an allocation from one call to the
 * next); everything else - argument regions, freed blocks - is forgotten.  returns the end of the highest live block */
static size_t keep_live_heap(void) {
    int n = 0;
    size_t top = 0;
    for (int i = 0; i < G.nreg; i++) {
        if (G.reg[i].kind == RK_HEAP) {
            size_t end = (size_t)(G.reg[i].hi - (uintptr_t)G.arena);
            end = ((end + 15) & ~(size_t)15) + 16;
            if (end > top)
                top = end;
            if (G.reg[i].shadow) {
                free(G.reg[i].shadow);
                G.reg[i].shadow = NULL;
            }
            G.reg[n] = G.reg[i];
            G.reg[n].id = 900 + n; /* blocks inherited from earlier calls */
            n++;
        } else if (G.reg[i].shadow) {
            free(G.reg[i].shadow);
            G.reg[i].shadow = NULL;
        }
    }
    G.nreg = n;
    G.mru = 0;
    return top;
}

EXPORT void sim_begin_run(void) {
    size_t live_top;
    sim_init_once();
    live_top = keep_live_heap();
    G.rng = G.seed ^ 0xA5A5A5A55A5A5A5AULL;
    G.steps = 0;
    G.nswitch = 0;
    G.nconflict = 0;
    G.conflict_sig = 0xcbf29ce484222325ULL;
    G.sched_sig = 0xcbf29ce484222325ULL;
    G.digest = 0xcbf29ce484222325ULL;
    G.nteams = 0;
    G.in_team = 0;
    G.multi = 0;
    G.nest = 0;
    G.nlog = 0;
    G.log_overflow = 0;
    G.arena_off = live_top;
    G.nalloc = G.nrealloc_moved = G.nrealloc_stay = G.nfree = 0;
    G.next_heap_id = 0;
    G.reg_overflow = 0;
    G.viol_kind = 0;
    G.aborted = 0;
    G.in_call = 0;
    G.replay_i = 0;
    memset(G.team_hist, 0, sizeof G.team_hist);
    g_prints = 0;
    logev(EV_SEED, 0, (int64_t)G.seed, (int64_t)G.garbage_seed);
}

EXPORT void sim_set_replay(const sw_t *sw, int n) {
    if (G.replay)
        free(G.replay);
    G.replay = NULL;
    G.replay_n = 0;
    if (n > 0) {
        G.replay = malloc(sizeof(sw_t) * (size_t)n);
        memcpy(G.replay, sw, sizeof(sw_t) * (size_t)n);
        G.replay_n = n;
    }
    G.replay_i = 0;
}

typedef struct {
    uint64_t steps, nswitch, nconflict, conflict_sig, sched_sig, digest;
    uint64_t nalloc, nrealloc_moved, nrealloc_stay, nfree, prints;
    int32_t nteams, nlog, log_overflow, aborted;
    int32_t viol_kind, viol_region, viol_rw, viol_size, viol_tid;
    int64_t viol_off;
    uint64_t viol_step;
    uint64_t team_hist[MAXT + 1];
} sim_stats_t;

EXPORT void sim_get_stats(sim_stats_t *s) {
    s->steps = G.steps;
    s->nswitch = G.nswitch;
    s->nconflict = G.nconflict;
    s->conflict_sig = G.conflict_sig;
    s->sched_sig = G.sched_sig;
    s->digest = G.digest;
    s->nalloc = G.nalloc;
    s->nrealloc_moved = G.nrealloc_moved;
    s->nrealloc_stay = G.nrealloc_stay;
    s->nfree = G.nfree;
    s->prints = g_prints;
    s->nteams = G.nteams;
    s->nlog = G.nlog;
    s->log_overflow = G.log_overflow;
    s->aborted = G.aborted;
    s->viol_kind = G.viol_kind;
    s->viol_region = G.viol_region;
    s->viol_rw = G.viol_rw;
    s->viol_size = G.viol_size;
    s->viol_tid = G.viol_tid;
    s->viol_off = G.viol_off;
    s->viol_step = G.viol_step;
    memcpy(s->team_hist, G.team_hist, sizeof G.team_hist);
}
EXPORT const ev_t *sim_get_log(void) { return G.log; }
EXPORT void sim_set_note_fd(int fd) { G.note_fd = fd; }
EXPORT int sim_maxt(void) { return MAXT; }

/* generic SysV caller, executed on the simulator-owned serial stack */
typedef long (*fn_l_t)(long, long, long, long, long, long, double, double, double, double, double, double, double,
                       double, long, long, long, long, long, long, long, long, long, long, long, long, long, long,
                       long, long);
typedef double (*fn_d_t)(long, long, long, long, long, long, double, double, double, double, double, double, double,
                         double, long, long, long, long, long, long, long, long, long, long, long, long, long, long,
                         long, long);
typedef struct {
    void *fn;
    long iargs[6];
    double fargs[8];
    long sargs[16];
    int ret_kind; /* 0 void/int, 1 double, 2 float */
    long ret_l;
    double ret_d;
} sim_callrec_t;

static void call_entry(void *arg) {
    sim_callrec_t *c = (sim_callrec_t *)arg;
    long *i = c->iargs, *s = c->sargs;
    double *f = c->fargs;
    if (c->ret_kind == 0) {
        c->ret_l = ((fn_l_t)c->fn)(i[0], i[1], i[2], i[3], i[4], i[5], f[0], f[1], f[2], f[3], f[4], f[5], f[6], f[7],
                                   s[0], s[1], s[2], s[3], s[4], s[5], s[6], s[7], s[8], s[9], s[10], s[11], s[12],
                                   s[13], s[14], s[15]);
    } else {
        c->ret_d = ((fn_d_t)c->fn)(i[0], i[1], i[2], i[3], i[4], i[5], f[0], f[1], f[2], f[3], f[4], f[5], f[6], f[7],
                                   s[0], s[1], s[2], s[3], s[4], s[5], s[6], s[7], s[8], s[9], s[10], s[11], s[12],
                                   s[13], s[14], s[15]);
    }
    G.in_call = 0;
    {
        void *dummy;
        sim_switch(&dummy, G.root_sp);
    }
}

/* returns 0 if the call completed, 1 if the run was aborted (see stats) */
EXPORT int sim_call(sim_callrec_t *c) {
    sim_init_once();
    G.aborted = 0;
    G.in_call = 1;
    logev(EV_CALL, 0, 0, 0);
    make_ctx(&G.v0, call_entry, c, V0FILL, 31337 + G.steps);
    sim_switch(&G.root_sp, G.v0.sp);
    G.in_call = 0;
    G.in_team = 0;
    G.nest = 0;
    return G.aborted;
}

/* several caller threads, each making one kernel call with its own arguments, interleaved by the scheduler
 * at every instrumented access (f2py releases the GIL for kernels declared threadsafe) */
typedef struct {
    sim_callrec_t *recs;
    int n;
} sim_multi_t;

static void do_call(sim_callrec_t *c) {
    long *i = c->iargs, *s = c->sargs;
    double *f = c->fargs;
    if (c->ret_kind == 0) {
        c->ret_l = ((fn_l_t)c->fn)(i[0], i[1], i[2], i[3], i[4], i[5], f[0], f[1], f[2], f[3], f[4], f[5], f[6], f[7],
                                   s[0], s[1], s[2], s[3], s[4], s[5], s[6], s[7], s[8], s[9], s[10], s[11], s[12],
                                   s[13], s[14], s[15]);
    } else {
        c->ret_d = ((fn_d_t)c->fn)(i[0], i[1], i[2], i[3], i[4], i[5], f[0], f[1], f[2], f[3], f[4], f[5], f[6], f[7],
                                   s[0], s[1], s[2], s[3], s[4], s[5], s[6], s[7], s[8], s[9], s[10], s[11], s[12],
                                   s[13], s[14], s[15]);
    }
}

static void multi_thread(void *arg) {
    sim_multi_t *m = (sim_multi_t *)arg;
    do_call(&m->recs[G.cur]);
}

static void multi_entry(void *arg) {
    sim_multi_t *m = (sim_multi_t *)arg;
    int save = G.deliver;
    G.deliver = MAXT;
    G.multi = 1;
    team_run(multi_thread, m, (unsigned)m->n, 0);
    G.multi = 0;
    G.deliver = save;
    G.in_call = 0;
    {
        void *dummy;
        sim_switch(&dummy, G.root_sp);
    }
}

EXPORT int sim_call_multi(sim_callrec_t *recs, int n) {
    static sim_multi_t m;
    sim_init_once();
    if (n < 1 || n > MAXT)
        return -1;
    m.recs = recs;
    m.n = n;
    G.aborted = 0;
    G.in_call = 1;
    logev(EV_CALL, n, 0, 0);
    make_ctx(&G.v0, multi_entry, &m, V0FILL, 4242 + G.steps);
    sim_switch(&G.root_sp, G.v0.sp);
    G.in_call = 0;
    G.in_team = 0;
    G.multi = 0;
    G.nest = 0;
    return G.aborted;
}
