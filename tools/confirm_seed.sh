#!/bin/bash
# usage: tools/confirm_seed.sh <seed dir with patch.diff demo.py notes.md> <seed id> <property id>
# Confirms in a scratch worktree of /repo that the change (1) applies and builds, (2) leaves the baseline test
# outcome unchanged (179 pass / 15 known failures), (3) makes the demonstration fail, and that the demonstration
# passes without it.  Writes /verif/seeded/<seed id>/{patch.diff,demo.py,notes.md,meta.json}.
src="$1"; sid="$2"; pid="$3"
wt=$(mktemp -d /tmp/confirm_${sid}_XXXX)
rmdir "$wt"
git -C /repo worktree add -q --detach "$wt" HEAD || exit 3
cleanup() { git -C /repo worktree remove --force "$wt" 2>/dev/null; rm -rf "$wt"; }
trap cleanup EXIT
cd "$wt"
export PYTHONPATH="$wt" PYTHONDONTWRITEBYTECODE=1
build() { /venv/bin/python setup.py build_ext --inplace >/dev/null 2>&1 && rm -rf build; }
build || { echo "$sid: pristine build failed"; exit 3; }
cp "$src/demo.py" demo.py
timeout 900 /venv/bin/python demo.py > demo_pristine.log 2>&1; rc_p=$?
git apply "$src/patch.diff" || { echo "$sid: patch does not apply"; exit 3; }
build; rc_b=$?
timeout 900 /venv/bin/python demo.py > demo_mut.log 2>&1; rc_m=$?
timeout 1500 /venv/bin/python -m pytest -q -p no:cacheprovider --timeout=900 --continue-on-collection-errors 2>&1 | tail -3 > tests.log
tests=$(tail -1 tests.log)
ok=0
if [ $rc_b -eq 0 ] && [ $rc_p -eq 0 ] && [ $rc_m -ne 0 ] && echo "$tests" | grep -q "^15 failed, 179 passed"; then ok=1; fi
echo "$sid: build=$rc_b demo_pristine=$rc_p demo_mutated=$rc_m tests='$tests' confirmed=$ok"
if [ $ok -eq 1 ]; then
  out=/verif/seeded/$sid
  mkdir -p "$out"
  cp "$src/patch.diff" "$src/demo.py" "$out/"
  [ -f "$src/notes.md" ] && cp "$src/notes.md" "$out/"
  needs=$(grep -i -m1 -A3 "needs\|manifest" "$src/notes.md" 2>/dev/null | tr '\n' ' ' | cut -c1-600 | sed 's/"/\\"/g')
  cat > "$out/meta.json" <<EOM
{
 "seed_id": "$sid",
 "property": "$pid",
 "source": "independent sub-agent given only the property text and a scratch worktree",
 "needs_to_manifest": "$needs",
 "confirmed": {
  "builds": true,
  "demo_on_pristine_exit": $rc_p,
  "demo_on_mutated_exit": $rc_m,
  "existing_tests_with_change": "$tests (baseline: 15 failed for lack of pandas/network, 179 passed)",
  "how": "tools/confirm_seed.sh in a scratch git worktree of /repo HEAD (removed afterwards)"
 }
}
EOM
fi
