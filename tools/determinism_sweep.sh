#!/bin/bash
# for every check: the event-log digests of the first N runs of several VERIF_SEED values must be identical between
# (16 workers, PYTHONHASHSEED=0) and (5 workers, PYTHONHASHSEED=4242) in fresh interpreters
N=${1:-200}
cd "$(dirname "$0")/.."
rc=0
for c in C01 C06 C07 C11 C12 C13 C14 C15 C17 C18 C19 C20; do
  lc=$(echo $c | tr 'A-Z' 'a-z')
  for seed in 1 2 3; do
    a=$(PYTHONWARNINGS=ignore NUMBA_THREADING_LAYER=workqueue PYTHONHASHSEED=0 /venv/bin/python checks/$lc.py --digests $N --jobs 16 --seed $seed 2>/dev/null | grep '^DIGESTS' | md5sum)
    b=$(PYTHONWARNINGS=ignore NUMBA_THREADING_LAYER=workqueue PYTHONHASHSEED=4242 /venv/bin/python checks/$lc.py --digests $N --jobs 5 --seed $seed 2>/dev/null | grep '^DIGESTS' | md5sum)
    if [ "$a" == "$b" ]; then echo "$c seed=$seed N=$N identical"; else echo "$c seed=$seed N=$N DIFFERENT"; rc=1; fi
  done
done
exit $rc
