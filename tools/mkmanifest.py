#!/usr/bin/env python3
"""Regenerates /verif/MANIFEST.json from the table below and validates it against the schema."""
import json, os, sys

VERIF = os.path.dirname(os.path.dirname(os.path.abspath(__file__)))

TRUST_A = ("Trusted base: gcc's tsan instrumentation pass marks every potentially shared access of the -O2 build; "
           "interleavings are sequentially consistent at that granularity (compiler/CPU reordering of the shipped, "
           "uninstrumented build is outside the model); libm/libc taken as deterministic; the Python reference "
           "model in /verif/checks is the oracle; schedules, garbage and inputs are sampled, not enumerated.")

CHECKS = {
    "C13": dict(
        engine="simomp",
        technique="deterministic simulation: real C kernels under a simulated OpenMP runtime (coroutine team, seeded "
                  "scheduler at instrumented-access granularity), garbage-filled buffers, oracle = reference model",
        text="Seeded search over thread interleavings (random / PCT / run-to-completion / round-robin, team 1..64), "
             "previous buffer contents and images for localmaxlabel and sparse_localmaxlabel; every run is compared "
             "bitwise with an independent steepest-ascent labelling. A clean batch is evidence, not proof: the "
             "schedule space is sampled. This is the right level because the property quantifies over schedules "
             "and buffer contents, which only a controlled scheduler can vary and replay.",
        design_ref="DESIGN.md section 4, C13",
        note=TRUST_A),
    "C20": dict(
        engine="simomp",
        technique="deterministic simulation with fault injection on the memory seam: every exported kernel on "
                  "simulator-owned stacks, per-access bounds/permission check against registered argument regions, "
                  "seeded allocator (moving realloc, tiny initial capacity), complementary-garbage differential",
        text="Every function of _cImageD11.pyf is called with exactly sized, guard-separated buffers; each "
             "instrumented access is checked before it happens against the regions the call was handed (byte exact, "
             "read-only for intent(in)); freed heap blocks are quarantined; exit/assert are recorded; each run is "
             "repeated with complementary garbage in outputs, work areas, stacks and heap and promised outputs must "
             "agree bitwise. Arguments are sampled (boundary-biased), so this is exploration, not proof.",
        design_ref="DESIGN.md section 4, C20",
        note=TRUST_A + " UBSan-only classes (signed overflow, shifts, alignment) and indexing errors confined to a "
             "kernel's own stack arrays are not observable through the access callbacks."),
    "C11": dict(
        engine="simomp",
        technique="deterministic simulation: dense/sparse/splat labelling kernels under the simulated runtime with "
                  "seeded allocator faults (disjoint-set capacity 4..16384, moving realloc), garbage buffers, team "
                  "schedules; oracle = scipy.ndimage.label partition + cross-variant agreement",
        text="One image and threshold go through connectedpixels (8 and 4 connectivity), sparse_connectedpixels and "
             "sparse_connectedpixels_splat in strict mode; background, label range 1..n, count and partition are "
             "compared with an independent labelling and the variants with one another. The allocator seam makes the "
             "label-table growth path run on small images and occasionally at native size (>16384 labels).",
        design_ref="DESIGN.md section 4, C11",
        note=TRUST_A),
    "C07": dict(
        engine="simomp",
        technique="deterministic simulation: score_and_assign under seeded team schedules and seeded grain orders, at "
                  "kernel level (strict) and through indexer.fight_over_peaks / refinegrains.assignlabels on the "
                  "instrumented module; oracle = independent numpy argmin model + sequential-semantics model",
        text="Grain order (history) and thread interleaving inside each call are both drawn from the seed; labels, "
             "stored errors, per-call counts and the per-grain histogram are compared with an order-free model "
             "(exact ties excluded). Peak counts cross the 4096 static chunk size.",
        design_ref="DESIGN.md section 4, C07",
        note=TRUST_A),
    "C06": dict(
        engine="simomp",
        technique="deterministic simulation of the memory seam: serial scoring/refinement kernels on simulator-owned, "
                  "seed-filled stacks, complementary-garbage differential, strict bounds; oracle = definition evaluated "
                  "in numpy (count bit-exact, least squares in extended precision)",
        text="score, score_and_refine and refine_assigned have no schedule; their only nondeterminism is memory they "
             "did not initialise (stack accumulators, outputs). Each call runs twice on stacks/outputs filled with "
             "complementary garbage and must agree bitwise, stay inside its arguments, and return the count, mean "
             "squared error and (R H^-1)^-1 of the definition; singular selections must leave the matrix untouched.",
        design_ref="DESIGN.md section 4, C06",
        note=TRUST_A + " The input quantifier (UBIs, peak lists, tolerances) is sampled."),
    "C01": dict(
        engine="simomp",
        technique="deterministic simulation: geometry kernels under seeded team schedules and garbage outputs, at "
                  "kernel level (strict) and through columnfile.updateGeometry/updateGV, Ctransform, get_local_gv on "
                  "the instrumented module under an independent schedule and after in-place parameter edits; "
                  "oracle = bitwise agreement between routes + tolerance agreement with the Python formulas and the "
                  "numba copies",
        text="The simulation decides the part of the statement that depends on team size, chunking, interleaving, "
             "previous buffer content and the history of a long-lived columnfile; the (parameters x peaks) "
             "quantifier is sampled by a swarm generator (all 8 flips, omegasign, every tilt/wedge/chi/translation "
             "on or off).",
        design_ref="DESIGN.md section 4, C01",
        note=TRUST_A),
    "C14": dict(
        engine="simomp",
        technique="deterministic simulation: sparse conversion/overlap kernels under seeded team schedules with "
                  "garbage-filled np.empty buffers and short call histories on reused cache objects "
                  "(overlaps_linear / overlaps_matrix); oracle = numpy.nonzero / Counter reference models",
        text="Round trips (from_data_mask / from_data_cut / to_dense, incl. dirty out= buffers), sort() of shuffled "
             "frames and sequences of overlap calls whose answers are consumed after the last call are run on the "
             "instrumented module; mask_to_coo and tosparse_* also at kernel level in strict mode under team "
             "schedules. Inputs are sampled.",
        design_ref="DESIGN.md section 4, C14",
        note=TRUST_A),
    "C17": dict(
        engine="histsim",
        technique="deterministic simulation of operation histories: seeded sequences of columnfile operations on up to "
                  "three live objects (copies stay in the machine) against an ordered-dict reference model, compared "
                  "after every step; failing histories are delta-debugged to a minimal operation list",
        text="The state of a columnfile is three hand-maintained aliases of the same columns; the property is about "
             "the history of calls. Histories start from empty / dict-built / text-loaded / HDF-loaded objects and "
             "mix additions, overwrites through every view (scalar, array, several dtypes), in-place writes, filters, "
             "row removals, sorts, reorders, copies, row-copies and bigarray reads/writes. A raising operation must "
             "leave the object consistent. Histories are sampled, not enumerated.",
        design_ref="DESIGN.md section 4, C17",
        note="Trusted base: the reference model in checks/c17.py (ordered dict of lists plus numpy's own casting rule "
             "for in-place writes into integer/float32 columns); numpy and h5py taken as correct."),
    "C18": dict(
        engine="histsim",
        technique="deterministic simulation with fault injection on the file seam: seeded save/load/re-save histories "
                  "over named slots in a private directory for every on-disk format, every load re-reading from disk "
                  "(restart), ENOSPC/EIO (optionally torn) injected into the k-th write() of the text writers; "
                  "acknowledged-write oracle against an in-memory model with the documented precisions",
        text="A save that returns is acknowledged and must read back to the documented precision (titles, order, header "
             "parameters with types, integer dtypes in HDF5, grain order); a save that raises leaves the slot "
             "unspecified only until the next acknowledged save. Histories include overwriting HDF5 groups with the "
             "same / different length and title set, second-generation saves, and failed-then-repeated saves. HDF5 "
             "writes are not fault-injected (no libhdf5 seam).",
        design_ref="DESIGN.md section 4, C18",
        note="Trusted base: the format/precision table written down in checks/c18.py independently of the library's "
             "tables; h5py/libhdf5 and the OS file system taken as correct; histories are sampled."),
    "C12": dict(
        engine="histsim+simomp+pysched",
        technique="deterministic simulation: seeded frame histories through labelimage (peaksearch / output2dpeaks / "
                  "mergelast / finalise) on the instrumented module with allocator faults and team schedules; the "
                  "threaded peaksearch pipeline under a deterministic Python thread scheduler; oracle = independent "
                  "3D connected-component labelling with per-component pixel/intensity/centroid/bbox reference",
        text="labelimage carries label images and property tables from frame to frame; the check drives generated 3D "
             "scenes (joins, forks, blobs linked only through a neighbouring frame, empty frames, border blobs, zero "
             "and negative omega steps) frame by frame and compares the written peaks one-to-one with the "
             "components of the scene. The simulated heap is exact also under unchanged Python code: a kernel "
             "that leaves its allocation dies deterministically and is reported with its run descriptor.",
        design_ref="DESIGN.md section 4, C12",
        note=TRUST_A + " Scenes use distinct integer intensities so that sums are exact and the maximum pixel "
             "identifies its component."),
    "C15": dict(
        engine="pysched",
        technique="deterministic simulation: the Python source of the numba prange loops run by T simulated threads "
                  "(baton-passing real threads, seeded scheduler, pre-emption between bytecodes), unchanged "
                  "find_ND_labels / pks_table on top; oracle = union-find components + bounded sweeps + weighted-mean "
                  "reference; native compiled code cross-checked at several numba thread counts",
        text="The prange loop of numbalabelNd reads and writes the shared label array; the simulation interleaves its "
             "iterations at bytecode granularity for 1..16 threads, contiguous or random chunks, and checks that the "
             "fixed point is the component labelling, reached within a sweep bound. Other prange loops are run with "
             "scheduler-ordered iterations (or on simulated threads when their prelude is side-effect free).",
        design_ref="DESIGN.md section 4, C15",
        note="Trusted base: numba's documented prange semantics (chunks, scalar reductions summed at the join) and "
             "sequential consistency at bytecode granularity; the compiled machine code itself is not schedulable and "
             "is only cross-checked natively. Graphs up to 60 nodes are sampled."),
    "C19": dict(
        engine="pysched",
        technique="deterministic simulation: run_iradon / iradon with the ThreadPoolExecutor replaced by simulated worker "
                  "threads under a seeded interleaving (line-level pre-emption in roi_iradon.py); oracle = bitwise "
                  "schedule independence for fixed workers, tolerance equality across worker counts / ROI / linearity, "
                  "arg-max within 1.5 px of the geometry's prediction, conversion round trips",
        text="The simulation decides the worker-count / schedule / ROI part of the statement; the coordinate "
             "conversions are pure and are evaluated as invariants inside every run. Geometries (ystep, y0 offsets, "
             "odd/even heights, 0-180 and 0-360 scans) and point-grain positions are sampled.",
        design_ref="DESIGN.md section 4, C19",
        note="Trusted base: numpy and scipy.fft (whose own worker threads are not controlled) are deterministic pure "
             "functions; the point grain's sinogram is the harness's construction (Gaussian profile on the continuous "
             "dty of the grain)."),
}

NOT_APPLICABLE = {
    "C02": "pure function of its input: closed-form numpy formulas (transform.py, gv_general.py); no schedule, clock, "
           "file, fault or history for a simulator to act on (the only C involved, compute_gv, runs under C01)",
    "C03": "pure function of (cell, centring, limit, tolerance): unitcell.gethkls/makerings are serial Python",
    "C04": "pure linear algebra in grain/indexing/tensor_map/point_by_point (serial); nothing to schedule or fault",
    "C05": "pure function of (cell, g1, g2, rings): unitcell.orient and the serial quickorient kernel",
    "C08": "the indexer is a serial search whose result depends on inputs and tolerances only",
    "C09": "optimiser-convergence statement over inputs x geometry; the schedulable surfaces it passes through are "
           "decided under C01 (compute_gv), C07 (assignment) and C18 (files)",
    "C10": "pure linear algebra (finite_strain.py); no concurrency, time, I/O or history",
    "C16": "pure functions over finite groups; the module-level cache is write-once and keyed by the full generators",
}

PENDING = {}  # filled below for properties whose check is not built yet


def main():
    props = [json.loads(l) for l in open(os.path.join(VERIF, "properties.jsonl"))]
    ids = [p["id"] for p in props]
    planned = ["C01", "C06", "C07", "C11", "C12", "C13", "C14", "C15", "C17", "C18", "C19", "C20"]
    checks = []
    for pid in ids:
        if pid in CHECKS:
            c = CHECKS[pid]
            checks.append({
                "property_id": pid,
                "quick_cmd": "./check %s --tier quick" % pid,
                "thorough_cmd": "./check %s --tier thorough" % pid,
                "evidence_file": "evidence/%s.json" % pid,
                "replay_cmd_template": "./check %s --replay {path}" % pid,
                "engine": c["engine"],
                "level_claimed": {"category": "exploration", "text": c["text"], "design_ref": c["design_ref"]},
                "level_note": c["note"],
                "technique": c["technique"],
            })
    na = []
    for pid in ids:
        if pid in CHECKS:
            continue
        if pid in NOT_APPLICABLE:
            na.append({"property_id": pid, "reason": NOT_APPLICABLE[pid]})
        elif pid in planned:
            na.append({"property_id": pid, "reason": "not claimed yet: a simulation check is designed (DESIGN.md "
                                                     "section 4) but not built in this commit"})
    man = {
        "version": 1,
        "setup_cmd": "./setup.sh",
        "hooks": {
            "guard": "IMAGED11_VERIF",
            "enable": "no source hooks: every seam is at link time (our libgomp/tsan callbacks/allocator under the "
                      "unmodified sources), at import time (module substitution) or a monkeypatch for the duration "
                      "of a run; checks rebuild the kernels from /repo/src on every invocation",
            "baseline_off_cmd": "cd /repo && /venv/bin/python setup.py build_ext --inplace >/dev/null 2>&1 && "
                                "/venv/bin/python -m pytest -ra -q -p no:cacheprovider --timeout=900 "
                                "--continue-on-collection-errors",
            "source_commits": [],
            "add_only": True,
        },
        "engines": [
            {"name": "simomp", "path": "simomp/", "serves_properties": [p for p in ids if CHECKS.get(p, {}).get("engine") == "simomp"],
             "kind_free_text": "deterministic OpenMP runtime + memory seam under the real C kernels (Engine A)"},
            {"name": "pysched", "path": "pysched/", "serves_properties": [p for p in ids if CHECKS.get(p, {}).get("engine") == "pysched"],
             "kind_free_text": "deterministic scheduler for Python threads, queues, virtual time, pools, prange (Engine B)"},
            {"name": "histsim", "path": "histsim/", "serves_properties": [p for p in ids if CHECKS.get(p, {}).get("engine") == "histsim"],
             "kind_free_text": "seeded operation-and-fault histories against reference models, file seam (Engine C)"},
        ],
        "checks": checks,
        "not_applicable": na,
        "notes": "Technique family: deterministic simulation with fault injection. Exit codes of every check: 0 held, "
                 "1 VIOLATION (replay file written under replays/), 2 HARNESS-ERROR. known_findings.json lists "
                 "open and fixed genuine defects.",
    }
    man["engines"] = [e for e in man["engines"] if e["serves_properties"]]
    out = os.path.join(VERIF, "MANIFEST.json")
    json.dump(man, open(out, "w"), indent=1)
    try:
        import jsonschema
        jsonschema.validate(man, json.load(open("/root/.vp/MANIFEST.schema.json")))
        print("MANIFEST.json valid: %d checks, %d not applicable" % (len(checks), len(na)))
    except ImportError:
        print("MANIFEST.json written (jsonschema not available to validate)")


if __name__ == "__main__":
    main()
