#!/usr/bin/env python3
"""
Runs every seeded change under /verif/seeded/<id>/ against the check of the property it breaks (quick tier) on a scratch
copy of /repo's working tree (never on /repo itself) and writes /verif/seeded/RESULTS.json + RESULTS.md.
usage: tools/run_seeded.py [--extra C20,C11] [ids...]
"""
import json, os, subprocess, sys, tempfile, shutil, time, re

VERIF = os.path.dirname(os.path.dirname(os.path.abspath(__file__)))
SEEDED = os.path.join(VERIF, "seeded")


def run_one(sid, prop, extra_checks=()):
    d = tempfile.mkdtemp(prefix="mut_%s_" % sid)
    out = {"seed": sid, "property": prop, "applies": False, "checks": {}}
    try:
        subprocess.run(["rsync", "-a", "--exclude", ".git", "--exclude", "build", "--exclude", "*.so", "--exclude", "__pycache__",
                        "/repo/", d + "/"], check=True)
        p = subprocess.run(["patch", "-p1", "-s", "-i", os.path.join(SEEDED, sid, "patch.diff")], cwd=d,
                           stdout=subprocess.PIPE, stderr=subprocess.STDOUT)
        if p.returncode != 0:
            out["note"] = "patch does not apply to the current tree (the lines were changed by a later repair)"
            return out
        out["applies"] = True
        for chk in [prop] + [c for c in extra_checks if c != prop]:
            t0 = time.time()
            env = dict(os.environ, VERIF_REPO=d)
            r = subprocess.run([os.path.join(VERIF, "check"), chk, "--tier", "quick", "--no-evidence"], env=env,
                               stdout=subprocess.PIPE, stderr=subprocess.STDOUT, timeout=1800)
            txt = r.stdout.decode(errors="replace")
            vio = [l for l in txt.splitlines() if l.startswith("violation class=")]
            out["checks"][chk] = {"exit": r.returncode, "caught": r.returncode == 1 and "VIOLATION property=%s" % chk in txt,
                                  "first_violation": (vio[0][:300] if vio else None), "wall_s": round(time.time() - t0, 1)}
    finally:
        shutil.rmtree(d, ignore_errors=True)
    return out


def main():
    args = sys.argv[1:]
    extra = []
    if args and args[0] == "--extra":
        extra = args[1].split(",")
        args = args[2:]
    ids = args or sorted(x for x in os.listdir(SEEDED) if os.path.isdir(os.path.join(SEEDED, x)))
    res_path = os.path.join(SEEDED, "RESULTS.json")
    results = json.load(open(res_path)) if os.path.exists(res_path) else {}
    for sid in ids:
        meta = json.load(open(os.path.join(SEEDED, sid, "meta.json")))
        r = run_one(sid, meta["property"], list(extra) + list(meta.get("also_run", [])))
        results[sid] = r
        r["caught_by_any"] = any(v["caught"] for v in r["checks"].values())
        print(sid, meta["property"], "applies" if r["applies"] else "DOES-NOT-APPLY",
              {k: v["caught"] for k, v in r["checks"].items()}, flush=True)
        json.dump(results, open(res_path, "w"), indent=1, sort_keys=True)
    with open(os.path.join(SEEDED, "RESULTS.md"), "w") as f:
        f.write("| seed | property | applies to current tree | caught by its check (quick tier) | first violation reported |\n|---|---|---|---|---|\n")
        for sid in sorted(results):
            r = results[sid]
            c = r["checks"].get(r["property"], {})
            fv = (c.get("first_violation") or r.get("note") or "").replace("|", "/")
            fv = re.sub(r"^violation class=", "", fv)[:160]
            others = [k for k, v in r["checks"].items() if k != r["property"] and v.get("caught")]
            verdict = "yes" if c.get("caught") else ("-" if not r["applies"] else ("by " + ",".join(others) if others else "NO"))
            if not c.get("caught") and others:
                fv = re.sub(r"^violation class=", "", (r["checks"][others[0]].get("first_violation") or "").replace("|", "/"))[:160]
            f.write("| %s | %s | %s | %s | %s |\n" % (sid, r["property"], "yes" if r["applies"] else "no", verdict, fv))


if __name__ == "__main__":
    main()
