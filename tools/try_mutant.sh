#!/bin/sh
# usage: tools/try_mutant.sh <patch.diff> <check id> [more check args]
# applies the patch to a scratch copy of /repo's working tree (never to /repo) and runs the check against it
patch="$1"; id="$2"; shift 2
d=$(mktemp -d /tmp/mut_XXXXXX)
rsync -a --exclude .git --exclude build --exclude '*.so' --exclude __pycache__ /repo/ "$d/"
(cd "$d" && patch -p1 -s < "$patch") || { echo "PATCH FAILED"; rm -rf "$d"; exit 3; }
VERIF_REPO="$d" /verif/check "$id" --no-evidence "$@"
rc=$?
rm -rf "$d"
exit $rc
